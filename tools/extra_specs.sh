#!/bin/bash
# Specification coverage beyond the listed properties (DESIGN.md section 11): model-check each extra module and run its conformance
# harness against /repo's working tree.  Not registered in MANIFEST.json (the manifest lists the given properties only).
cd "$(dirname "$0")/.." || exit 2
rc=0
for id in X01 X02 X03 X04 X05 X06 X07 X08 X09; do
  [ -f harness/$(echo $id | tr A-Z a-z).py ] || continue
  ./check $id "$@" | tail -3
  [ "${PIPESTATUS[0]}" = 0 ] || rc=1
done
exit $rc
