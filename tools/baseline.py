#!/usr/bin/env python3
"""Run the pinned baseline suite (guard off) on a tree and compare with /root/.vp/BASELINE.json stable_pass.
usage: baseline.py [repo_dir]   (default /repo; for scratch worktrees PYTHONPATH is set to the tree)"""
import json, os, subprocess, sys, tempfile, xml.etree.ElementTree as ET
repo = sys.argv[1] if len(sys.argv) > 1 else "/repo"
base = json.load(open("/root/.vp/BASELINE.json"))
fd, junit = tempfile.mkstemp(suffix=".xml"); os.close(fd)
env = dict(os.environ); env.pop("OFFSCALE_CDD_PYTHON_VERIF", None); env["PYTHONPATH"] = repo
subprocess.run(["/venv/bin/python", "-m", "pytest", "-q", "-p", "no:cacheprovider", "--timeout=900",
                "--continue-on-collection-errors", "--junitxml=" + junit], cwd=repo, env=env,
               stdout=subprocess.DEVNULL, stderr=subprocess.DEVNULL)
passed = set()
for tc in ET.parse(junit).getroot().iter("testcase"):
    if not any(c.tag in ("failure", "error", "skipped") for c in tc):
        passed.add(tc.get("classname") + "::" + tc.get("name"))
os.remove(junit)
missing = sorted(set(base["stable_pass"]) - passed)
print("passed", len(passed), "stable_pass", len(base["stable_pass"]), "missing", len(missing))
for m in missing: print("  NOT PASSING:", m)
sys.exit(1 if missing else 0)
