#!/usr/bin/env python3
"""Run every stored seeded change (seeded/<name>/patch.diff) against the check of its own property, one after the other, on /repo
itself (git apply -> ./check -> git checkout -- .), and write seeded/RESULTS.json.  Nothing is ever committed to /repo.
usage: seedmatrix.py [--tier quick|thorough] [name ...]"""
import json, os, subprocess, sys, time

tier = "quick"
args = sys.argv[1:]
if "--tier" in args:
    tier = args[args.index("--tier") + 1]
    del args[args.index("--tier"):args.index("--tier") + 2]
# --tree: apply each change to a scratch worktree of /repo's HEAD (outside /repo and /verif) and point the check at it with
# VERIF_REPO / PYTHONPATH; evidence and replays of those runs go to a scratch directory (VERIF_OUT), so /verif/evidence keeps
# what the unchanged tree produced and a background run that reads /repo is not disturbed.
use_tree = "--tree" in args
if use_tree:
    args.remove("--tree")
root = "/verif/seeded"
names = args or sorted(n for n in os.listdir(root) if os.path.isfile(os.path.join(root, n, "patch.diff")))
TREE = "/repo"
env = dict(os.environ)
if use_tree:
    import tempfile
    base = tempfile.mkdtemp(prefix="verif-seedtree-")
    TREE = os.path.join(base, "tree")
    subprocess.run(["git", "-C", "/repo", "worktree", "add", "-q", "--detach", TREE, "HEAD"], check=True)
    env.update({"VERIF_REPO": TREE, "PYTHONPATH": TREE, "VERIF_OUT": os.path.join(base, "out")})
st = subprocess.run(["git", "-C", TREE, "status", "--porcelain"], capture_output=True, text=True).stdout.strip()
if st:
    print("refusing: /repo is not clean:\n" + st)
    sys.exit(2)
out_path = os.environ.get("SEED_RESULTS", os.path.join(root, "RESULTS.json"))     # (parallel runs write separate files, merged afterwards)
results = json.load(open(out_path)) if os.path.exists(out_path) else {}
for name in names:
    pid = name[:3]
    patch = os.path.join(root, name, "patch.diff")
    if subprocess.run(["git", "-C", TREE, "apply", patch]).returncode != 0:
        results[name] = {"property": pid, "error": "patch does not apply"}
        continue
    t0 = time.time()
    try:
        p = subprocess.run(["./check", pid, "--tier", tier], cwd="/verif", capture_output=True, text=True, env=env)
    finally:
        subprocess.run(["git", "-C", TREE, "checkout", "--", "."])
    lines = p.stdout.splitlines()
    viol = [l for l in lines if l.startswith("VIOLATION")]
    what = [l.strip()[6:] for l in lines if l.startswith("  what:")]
    results[name] = {"property": pid, "tier": tier, "exit": p.returncode, "violation_lines": len(viol),
                     "caught": p.returncode == 1 and bool(viol), "first": what[0][:300] if what else None,
                     "summary": (lines[-1] if lines else "")[:240], "wall_s": round(time.time() - t0, 1)}
    print("{:34s} {} exit={} violations={}  {}".format(name, "CAUGHT" if results[name]["caught"] else "MISSED", p.returncode, len(viol),
                                                      (what[0][:140] if what else "")))
    with open(out_path, "w") as f:
        json.dump(results, f, indent=1, sort_keys=True)
clean = subprocess.run(["git", "-C", TREE, "status", "--porcelain"], capture_output=True, text=True).stdout.strip()
print("repo:", clean or "clean")
if use_tree:
    import shutil
    subprocess.run(["git", "-C", "/repo", "worktree", "remove", "--force", TREE])
    shutil.rmtree(base, ignore_errors=True)
    sys.exit(0)
# evidence files were rewritten by runs against a changed tree: they must be regenerated from the unchanged tree before committing
print("NOTE: re-run ./check for {} on the unchanged tree to regenerate evidence/".format(" ".join(sorted({n.split('_')[0] for n in names}))))
