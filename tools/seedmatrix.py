#!/usr/bin/env python3
"""Run every stored seeded change (seeded/<name>/patch.diff) against the check of its own property, one after the other, on /repo
itself (git apply -> ./check -> git checkout -- .), and write seeded/RESULTS.json.  Nothing is ever committed to /repo.
usage: seedmatrix.py [--tier quick|thorough] [name ...]"""
import json, os, subprocess, sys, time

tier = "quick"
args = sys.argv[1:]
if "--tier" in args:
    tier = args[args.index("--tier") + 1]
    del args[args.index("--tier"):args.index("--tier") + 2]
root = "/verif/seeded"
names = args or sorted(n for n in os.listdir(root) if os.path.isfile(os.path.join(root, n, "patch.diff")))
st = subprocess.run(["git", "-C", "/repo", "status", "--porcelain"], capture_output=True, text=True).stdout.strip()
if st:
    print("refusing: /repo is not clean:\n" + st)
    sys.exit(2)
out_path = os.path.join(root, "RESULTS.json")
results = json.load(open(out_path)) if os.path.exists(out_path) else {}
for name in names:
    pid = name[:3]
    patch = os.path.join(root, name, "patch.diff")
    if subprocess.run(["git", "-C", "/repo", "apply", patch]).returncode != 0:
        results[name] = {"property": pid, "error": "patch does not apply"}
        continue
    t0 = time.time()
    try:
        p = subprocess.run(["./check", pid, "--tier", tier], cwd="/verif", capture_output=True, text=True)
    finally:
        subprocess.run(["git", "-C", "/repo", "checkout", "--", "."])
    lines = p.stdout.splitlines()
    viol = [l for l in lines if l.startswith("VIOLATION")]
    what = [l.strip()[6:] for l in lines if l.startswith("  what:")]
    results[name] = {"property": pid, "tier": tier, "exit": p.returncode, "violation_lines": len(viol),
                     "caught": p.returncode == 1 and bool(viol), "first": what[0][:300] if what else None,
                     "summary": (lines[-1] if lines else "")[:240], "wall_s": round(time.time() - t0, 1)}
    print("{:34s} {} exit={} violations={}  {}".format(name, "CAUGHT" if results[name]["caught"] else "MISSED", p.returncode, len(viol),
                                                      (what[0][:140] if what else "")))
    with open(out_path, "w") as f:
        json.dump(results, f, indent=1, sort_keys=True)
clean = subprocess.run(["git", "-C", "/repo", "status", "--porcelain"], capture_output=True, text=True).stdout.strip()
print("repo:", clean or "clean")
# evidence files were rewritten by runs against a changed tree: they must be regenerated from the unchanged tree before committing
print("NOTE: re-run ./check for {} on the unchanged tree to regenerate evidence/".format(" ".join(sorted({n.split('_')[0] for n in names}))))
