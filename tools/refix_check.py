#!/usr/bin/env python3
"""A `fixed:` entry suppresses nothing: if the defect ever returns, the check must report it again.  For every repair listed in
known_findings.txt this tool takes a scratch worktree of /repo's HEAD (outside /repo and /verif), reverse-applies that one commit, runs
the quick check of the property the entry names against the scratch tree, and expects exit 1.  Commits whose reverse patch no longer
applies (later repairs rewrote the same lines) are re-broken together with those later repairs of the same files; `skipped` if even that fails.  Removes the worktree when done.
usage: refix_check.py [commit ...]      (default: every commit named in a fixed: line)"""
import os, re, subprocess, sys, tempfile
V = "/verif"
ents = []
for l in open(V + "/known_findings.txt"):
    m = re.match(r"fixed: property=(C\d\d) ([0-9a-f]{7})\b", l)
    if m and (len(sys.argv) < 2 or m.group(2) in sys.argv[1:]):
        ents.append((m.group(1), m.group(2)))
# a later repair that ALSO closes the door an earlier one closed (the earlier one alone can then be reversed without the defect returning):
# reverse that part of the later one too.  867cf18 stopped forcing a default on the return entry at the call site; 3d7b806 later made the
# forcing closure itself refuse the name `return_type`.
ALSO = {"867cf18": [("3d7b806", "cdd/shared/docstring_parsers.py")]}
root = tempfile.mkdtemp(prefix="refix-", dir="/tmp")
wt = os.path.join(root, "wt")
subprocess.run(["git", "-C", "/repo", "worktree", "add", "-f", "--detach", wt, "HEAD", "-q"], check=True)
res = []
try:
    for pid, c in ents:
        subprocess.run(["git", "-C", wt, "checkout", "-q", "--", "."], check=True)
        patch = subprocess.run(["git", "-C", "/repo", "show", c], capture_output=True, text=True).stdout
        r = subprocess.run(["git", "-C", wt, "apply", "-R", "-"], input=patch, capture_output=True, text=True)
        note = ""
        if r.returncode != 0:
            # later repairs rewrote the same lines: peel those off first (newest first), then this one
            files = set(subprocess.run(["git", "-C", "/repo", "show", "--name-only", "--format=", c], capture_output=True, text=True).stdout.split())
            later = [x for x in subprocess.run(["git", "-C", "/repo", "rev-list", c + "..HEAD"], capture_output=True, text=True).stdout.split()
                     if files & set(subprocess.run(["git", "-C", "/repo", "show", "--name-only", "--format=", x], capture_output=True, text=True).stdout.split())]
            ok = True
            for x in later + [c]:
                px = subprocess.run(["git", "-C", "/repo", "show", x], capture_output=True, text=True).stdout
                if subprocess.run(["git", "-C", wt, "apply", "-R", "-"], input=px, capture_output=True, text=True).returncode != 0:
                    ok = False
                    break
            if not ok:
                res.append((pid, c, "skipped (reverse patch does not apply, even after peeling off later repairs of the same files)"))
                print(*res[-1], flush=True)
                continue
            note = " [together with {} later repair(s) of the same files]".format(len(later))
        for x, f in ALSO.get(c, []):
            px = subprocess.run(["git", "-C", "/repo", "show", x, "--", f], capture_output=True, text=True).stdout
            if subprocess.run(["git", "-C", wt, "apply", "-R", "-"], input=px, capture_output=True, text=True).returncode == 0:
                note += " [together with the part of {} in {}]".format(x, f)
        env = dict(os.environ, VERIF_REPO=wt, PYTHONPATH=wt, VERIF_OUT=os.path.join(root, "out"))   # evidence of these runs is scratch
        r = subprocess.run([V + "/check", pid], cwd=V, env=env, capture_output=True, text=True)
        nv = r.stdout.count("VIOLATION property=")
        res.append((pid, c, ("REPORTED AGAIN ({} violations)".format(nv) if r.returncode == 1 else "exit {} -- NOT REPORTED".format(r.returncode)) + note))
        print(*res[-1], flush=True)
finally:
    subprocess.run(["git", "-C", "/repo", "worktree", "remove", "--force", wt])
    subprocess.run(["git", "-C", "/repo", "worktree", "prune"])
    subprocess.run(["rm", "-rf", root])
bad = [x for x in res if "NOT REPORTED" in x[2]]
print("{} repairs re-broken: {} reported again, {} skipped, {} NOT reported".format(
    len(res), sum("REPORTED AGAIN" in x[2] for x in res), sum("skipped" in x[2] for x in res), len(bad)))
sys.exit(1 if bad else 0)
