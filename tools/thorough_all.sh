#!/bin/sh
# run the thorough tier of the given checks one after the other (for `vp run`)
for id in "$@"; do
  echo "=== $id"; ( time ./check $id --tier thorough ) 2>&1 | grep -v "^  what" | tail -12 | cut -c1-400
done
