#!/bin/bash
# run the given tier (default thorough) of the given checks one after the other (for `vp run --with-repo`)
# usage: thorough_all.sh [--tier quick|thorough] [--seed N] ids...
TIER=thorough; SEED=0
while [ $# -gt 0 ]; do case "$1" in --tier) TIER=$2; shift 2;; --seed) SEED=$2; shift 2;; *) break;; esac; done
if [ -n "$VP_RUN_REPO" ]; then export VERIF_REPO=$VP_RUN_REPO PYTHONPATH=$VP_RUN_REPO; fi
for id in "$@"; do
  echo "=== $id tier=$TIER seed=$SEED"; ( time VERIF_SEED=$SEED ./check $id --tier $TIER ) 2>&1 | grep -v "^KNOWN-FINDING" | grep "^  what\|^VIOLATION\|^C[0-9][0-9] \|MACHIN\|MODEL-DRIFT\|STALE\|^real" | head -12 | cut -c1-300
done
