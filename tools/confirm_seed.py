#!/usr/bin/env python3
"""Confirm a seeded change independently in a fresh scratch worktree, then store it under /verif/seeded/<name>/.
usage: confirm_seed.py <name> <property id> <dir with patch.diff demo.py notes.md>"""
import json, os, shutil, subprocess, sys
name, pid, src = sys.argv[1:4]
wt = "/tmp/confirm/" + name
os.makedirs("/tmp/confirm", exist_ok=True)
subprocess.run(["git", "-C", "/repo", "worktree", "remove", "--force", wt], capture_output=True)
subprocess.run(["git", "-C", "/repo", "worktree", "add", "-q", wt, "HEAD"], check=True)
env = dict(os.environ, PYTHONPATH=wt, PYTHONDONTWRITEBYTECODE="1"); env.pop("OFFSCALE_CDD_PYTHON_VERIF", None)
ran = {}
try:
    def demo():
        p = subprocess.run(["/venv/bin/python", os.path.join(src, "demo.py")], cwd=wt, env=env, capture_output=True, text=True, timeout=900)
        return p.returncode, (p.stdout + p.stderr)[-400:]
    ran["demo_without"] = demo()
    a = subprocess.run(["git", "-C", wt, "apply", os.path.join(src, "patch.diff")], capture_output=True, text=True)
    if a.returncode != 0:
        print("PATCH DOES NOT APPLY", a.stderr); sys.exit(1)
    ran["files"] = subprocess.run(["git", "-C", wt, "diff", "--stat"], capture_output=True, text=True).stdout.strip().splitlines()
    ran["demo_with"] = demo()
    b = subprocess.run(["/venv/bin/python", "/verif/tools/baseline.py", wt], capture_output=True, text=True)
    ran["suite_with"] = b.stdout.strip().splitlines()
    ok = ran["demo_without"][0] == 0 and ran["demo_with"][0] not in (0,) and b.returncode == 0
    print(json.dumps(ran, indent=1)[:2500])
    print("CONFIRMED" if ok else "NOT CONFIRMED")
    if ok:
        dst = "/verif/seeded/" + name
        os.makedirs(dst, exist_ok=True)
        for f in ("patch.diff", "demo.py", "notes.md"):
            if os.path.exists(os.path.join(src, f)):
                shutil.copy(os.path.join(src, f), dst)
        meta = {"property": pid, "name": name, "confirmed": {"demo_without_change_exit": ran["demo_without"][0],
                "demo_with_change_exit": ran["demo_with"][0], "suite_with_change": ran["suite_with"][:1], "files": ran["files"]},
                "needs_to_manifest": "(see notes.md)", "caught_by": "(to be filled by seedtest)"}
        if not os.path.exists(os.path.join(dst, "meta.json")):
            json.dump(meta, open(os.path.join(dst, "meta.json"), "w"), indent=1)
finally:
    subprocess.run(["git", "-C", "/repo", "worktree", "remove", "--force", wt], capture_output=True)
