#!/usr/bin/env python3
"""Write the brief for a seeding sub-agent: ONLY the text of one property plus the path of its own scratch worktree of /repo
(outside /repo and /verif) -- nothing from /verif.  usage: seed_prompts.py <root dir under /tmp> <id> [<id> ...]
Creates <root>/<id> (git worktree of /repo HEAD), <root>/<id>_out/scratch and <root>/<id>_prompt.txt."""
import json, os, subprocess, sys

TPL = '''You are helping to evaluate a verification effort by producing a realistic, subtle regression in the open-source project offscale/cdd-python (a Python source-to-source transpiler between docstrings, classes, functions, argparse, SQLAlchemy, pydantic, JSON-schema and OpenAPI via a shared intermediate representation).

Your own scratch git worktree of the repository is at {wt} (a checkout of the current HEAD). Work ONLY inside {wt} and write your deliverables to {out}/ . Do not read or touch /repo, /verif or any other directory outside those two (scratch files of your own go under {out}/scratch). Do not commit anything. NEVER use `git stash` (the stash is shared with other people's worktrees); to switch your change off and on use `git -C {wt} diff > {out}/scratch/my.diff; git -C {wt} apply -R {out}/scratch/my.diff; ... ; git -C {wt} apply {out}/scratch/my.diff`.

Environment: use /venv/bin/python. The package is installed in editable mode pointing at another checkout, so ALWAYS run Python with PYTHONPATH={wt} and cwd={wt} so that your worktree's code is the one imported (check with: cd {wt} && PYTHONPATH={wt} /venv/bin/python -c "import cdd, os; print(os.path.dirname(cdd.__file__))" ). There is no network. The existing test suite runs with: cd {wt} && PYTHONPATH={wt} /venv/bin/python -m pytest -q -p no:cacheprovider --timeout=900 --continue-on-collection-errors cdd/tests  (about 1 minute; the same 9 tests fail before and after any change: TestExMod test_exmod* (5), test_doctransify_cst, test_find_cst_at_ast_finds_all_functions, test_cstify_file, test_unittest_main -- ignore those).

THE PROPERTY the project is supposed to satisfy:

  Title: {title}
  Statement: {statement}
  Quantified over: {quant}

YOUR TASK: make a small source change to the package (under {wt}/cdd, not under cdd/tests) that BREAKS this property while (a) the package still imports/compiles and (b) the existing test suite still passes exactly as before (the same tests pass, the same 9 fail). The change should look like a plausible refactoring/optimisation/bug-fix gone slightly wrong, not sabotage, and it must need something SPECIFIC to manifest -- a particular kind of input, an unusual option combination, a multi-step sequence of operations, a crash/fault at a particular point, a particular interpreter configuration or import order, or two cooperating sites that each look fine alone -- rather than something ordinary use would expose at once. Prefer a site other than the first one that comes to mind (a helper two calls away from the obvious function, a rarely taken branch, a second format or style). Note that the current code base is alpha quality and already violates the property on some inputs; your change must break it on inputs / scenarios where the UNMODIFIED tree satisfies it (your demo proves that). First read the relevant code to find where the property is actually upheld.{avoid}

Deliverables in {out}/ :
  1. patch.diff   -- `git -C {wt} diff` of your change (source files only).
  2. demo.py      -- a small standalone program (run as: cd <tree> && PYTHONPATH=<tree> /venv/bin/python {out}/demo.py, where <tree> is a checkout root used as cwd) that exits 0 when the property holds for its scenario and exits 1 (printing what went wrong) when it does not. It must FAIL (exit 1) with your change applied and PASS (exit 0) on the unmodified tree. It may create temp files under a tempfile.mkdtemp() directory that it removes afterwards; it must not depend on files in {out}/scratch.
  3. notes.md     -- which part of the property your change breaks, what exactly is needed for it to manifest, and why the existing tests do not notice.
Verify all of this yourself before finishing: run the test suite with the change, run demo.py with and without the change, and leave the worktree WITH the change applied, `git -C {wt} diff` containing only your change. Keep the change to a few lines. In your final message give a 5-line summary (file(s) changed, trigger, demo result with/without, test-suite result).'''

import re


def used_sites(pid):
    """functions that earlier seeded changes for this property touched (names only -- nothing about the checks)"""
    out = []
    base = "/verif/seeded"
    for n in sorted(os.listdir(base)):
        pth = os.path.join(base, n, "patch.diff")
        if n[:3] == pid and os.path.isfile(pth):
            txt = open(pth).read()
            for f, fn in zip(re.findall(r"^\+\+\+ b/(\S+)", txt, re.M), re.findall(r"^@@.*@@ (?:def|class|async def) (\w+)", txt, re.M)):
                if (f, fn) not in out:
                    out.append((f, fn))
    return out


root, ids = sys.argv[1], sys.argv[2:]
props = {json.loads(l)["id"]: json.loads(l) for l in open("/verif/properties.jsonl")}
os.makedirs(root, exist_ok=True)
for pid in ids:
    p = props[pid]
    wt, out = os.path.join(root, pid), os.path.join(root, pid + "_out")
    subprocess.run(["git", "-C", "/repo", "worktree", "add", "-q", wt, "HEAD"], check=True)
    os.makedirs(os.path.join(out, "scratch"), exist_ok=True)
    with open(os.path.join(root, pid + "_prompt.txt"), "w") as f:
        sites = used_sites(pid)
        avoid = (" Earlier rounds of this exercise already changed these functions; pick a DIFFERENT function and a different mechanism: "
                 + "; ".join("%s in %s" % (fn, f) for f, fn in sites) + ".") if sites else ""
        f.write(TPL.format(avoid=avoid, wt=wt, out=out, title=p["title"], statement=p["statement"], quant=p["quantifier"]["text"]))
    print("wrote", os.path.join(root, pid + "_prompt.txt"))
