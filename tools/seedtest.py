#!/usr/bin/env python3
"""Apply a seeded change to /repo, run checks against it, and always undo it.
usage: seedtest.py <patch.diff> <check id> [more ids...] [--tier thorough]"""
import subprocess, sys, os
args = [a for a in sys.argv[1:] if not a.startswith("--")]
tier = "thorough" if "--tier" in sys.argv and "thorough" in sys.argv else "quick"
patch, ids = args[0], args[1:]
st = subprocess.run(["git", "-C", "/repo", "status", "--porcelain"], capture_output=True, text=True).stdout.strip()
if st:
    print("refusing: /repo is not clean:\n" + st); sys.exit(2)
r = subprocess.run(["git", "-C", "/repo", "apply", patch])
if r.returncode != 0:
    print("patch does not apply"); sys.exit(2)
try:
    for i in ids:
        p = subprocess.run(["./check", i, "--tier", tier], cwd="/verif", capture_output=True, text=True)
        lines = p.stdout.splitlines()
        viol = [l for l in lines if l.startswith("VIOLATION")]
        what = [l for l in lines if l.startswith("  what:")]
        print("== {} exit={} violations={} {}".format(i, p.returncode, len(viol), (lines[-1] if lines else "")[:200]))
        for w in what[:3]:
            print("   " + w[:300])
        if p.returncode == 2:
            print("\n".join(lines[-8:])[:1500])
finally:
    subprocess.run(["git", "-C", "/repo", "checkout", "--", "."])
    print("reverted:", subprocess.run(["git", "-C", "/repo", "status", "--porcelain"], capture_output=True, text=True).stdout.strip() or "clean")
