#!/usr/bin/env python3
"""Developer tool: dump a conversion spec with TLC, replay, and print clusters of mismatches (abstract keys).
usage: triage.py <Module> <cfg> <runner> [NAME=value ...]"""
import collections, json, os, sys
sys.path.insert(0, os.path.dirname(os.path.dirname(os.path.abspath(__file__))))
from harness import conv
from harness.common import run_tlc_sharded, NCPU, pmap
mod, cfg, runner = sys.argv[1:4]
consts = dict(a.split("=", 1) for a in sys.argv[4:])
r = run_tlc_sharded(mod, cfg, nshards=int(os.environ.get("SHARDS", "12")), constants=consts)
if r.rc != 0:
    print(r.stdout[-3000:]); sys.exit(2)
cases = r.printed
print(len(cases), "cases;", r.distinct, "states")
items = [(c, 0, runner) for c in cases]
batches = [items[k:k + 64] for k in range(0, len(items), 64)]
out = [x for b in pmap(conv._batch, batches, chunksize=1) for x in b]
cnt = collections.Counter(x["verdict"] for x in out)
print(cnt)
cl = collections.defaultdict(list)
for c, x in zip(cases, out):
    if x["verdict"] == "violation":
        kinds = tuple(sorted({w for w, _ in x["diffs"]}))
        # cluster by (style, kinds, per-differing-entry abstract)
        cl[(c["cfg"].get("style"), c["cfg"].get("fmt"), kinds)].append((c, x))
for k, v in sorted(cl.items(), key=lambda kv: -len(kv[1])):
    print("====", k, len(v))
    seen = set()
    for c, x in v:
        sig = (json.dumps(c["cfg"], sort_keys=True), conv._short(c["i"]))
        if len(seen) < int(os.environ.get("SHOW", "6")):
            seen.add(sig)
            print("   ", c["cfg"], conv._short(c["i"]), "devs", c["devs"])
            for w in x["diffs"][:3]: print("        ", w[1])
            if x.get("diffs_asbuilt"): print("         ASB:", x["diffs_asbuilt"][0][1])
