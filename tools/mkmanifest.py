#!/usr/bin/env python3
"""Regenerate /verif/MANIFEST.json from the table below (one entry per built check)."""
import json, os
HERE = os.path.dirname(os.path.dirname(os.path.abspath(__file__)))
ALL = ["C%02d" % i for i in range(1, 21)]

# what was added to a check's domain / oracle after its first description was written (mostly in answer to seeded changes; DESIGN.md 10.7)
EXT = {
 "C01": "default kinds str_odd / str_dot / str_kw / float_exp / int_big; undescribed return entries; long descriptions swept over 55 lengths; the keep axis; DocLines.tla (line-level emit and parse models, emit side compared with the real text). Batch 7: every description length 40..149 exactly (the wrap column falls between every two words in turn) and a short neighbour parameter on either side of the long one. Batch 8: non-ASCII description openers (characters whose case-folded form is longer than the character).",
 "C02": "type shapes Lit2 / LitP; return entries WITH defaults (literal, code-quoted expression, None) for interfaces of <= 1 parameter. Batch 7: equal values of different types in the default pools (1.0 == True == 1).",
 "C03": "hop docstring_keep and default kind str_kw; batch 7: a one-character string default. Batch 8b: the chain domain's Literal has its members in descending order.",
 "C04": "interfaces and parameters without any prose and the Body/Compiles clause; emit_default_doc as an axis of the configuration; descriptions that announce a default of their own (word_defaults). Batch 8: a third of the cases respell their type constants with double quotes (Literal[\"a\", \"b\"]).",
 "C05": "EnsurePK with key candidates by NAME; the hybrid emission is additionally read through its embedded `__table__ = Table(...)` call. Batch 7: description openers as a pool (a marker-stripping step must not eat an opener that begins with the marker's characters). Batch 8b: identifiers with a leading underscore.",
 "C06": "Literal shapes with digits/underscores (Lit2) and with regex-special members (LitP). Batch 7: two-paragraph interface prose, compared paragraph by paragraph. Batch 8b: a batch of parses keeps the returned interfaces and re-reads them at the end (no result may be changed by a later parse).",
 "C07": "signature shapes odd_defaults and posonly; bodies that are nothing but a docstring (doconly) and docstrings that re-emit as empty (types_only, blank), action GiveUp; a non-injected failure is diagnostic only. Batch 7: headers Python reads and the line scanner does not (esc_backslash, comment_apostrophe = LineScan.tla's counterexamples); giving up on them is allowed (MayGiveUp), writing a half-edited file is not. Batch 8: a call-style decorator at column 0 (decorated_call).",
 "C08": "doc kind ellipsis; hostile descriptions in the sqlalchemy / json_schema formats; type/default mismatches (x: str = None) in the fix domain. Batch 7: the comma-introduced closing default clause ('..., defaults to 5') on parameters and on return entries. Batch 8: the quick sample is stratified (every stratum of the two-parameter behaviours is represented first).",
 "C10": "second choice point OrderedScan (which default-announcing phrase wins) with its own pinned configuration and scan inputs for three parsers x three styles; third: conversions of ONE parsed object the caller keeps (CallShared, constant Aliases, refuted by TLC under aliasing), 4 sources x 8 targets from the kept object and from fresh copies. Batch 7: fourth choice point, a process-wide lookup table (CallTable / Registers; TLC must refute Functional when lookups leave entries behind and prove TableReadOnly as built), two interfaces with type names no table holds as separate inputs, and a diagnostic naming every module-level table of the package that changed during the calls.",
 "C11": "tokens TAB / NBSP / ' or ' / ' of ' and the adhoc-type entry point; each of the three doctrans rounds is its own monitored call. Batch 7: pumped inputs (Loops.tla Mode pumped: a token or a token truncated mid-way, one token repeated, an optional word, at five syntactic positions; model PumpK 4/6, concrete runs of 40) under a 20 s wall-clock watchdog -- the loops CPython runs in C (regular expressions) are observed, not trusted. Batch 8b: emit entry points with emit_default_doc=False and with emit_types=False / word_wrap=False.",
 "C12": "interface A2 (a strict extension of A) and D (a required parameter of a non-builtin type, an Optional[str] with a default); equivalence up to the function format's documented `=None` normalisation; every run is also recorded as a trace and validated by TLC against Sync.tla's own action (TraceSync.tla), and that verdict decides KNOWN-FINDING vs VIOLATION. Batch 7: surroundings that NAME the targets (`__all__`, strings, a registry: Arounds mentions) and a one-line module docstring (moddoc; the re-wrap is a listed finding with its own as-built action, incl. the optional re-render of the truth file).",
 "C13": "history variable prev: an earlier call from the same input in the same process. Batch 7: axis vals -- an evaluated value whose members compare equal but are different constants (0, 1, 2, True, 2.5).",
 "C14": "driver (f): generated SQLAlchemy models (class and Table, every keyword in every spelling), classes, argparse functions and JSON-schemas; entries documented beyond the signature are accepted by SigCovered. Batch 7: the `, optional` marker and types with commas (Tuple[float, float], Dict[str, int]) in generated Google / NumPy docstrings. Batch 8: generated docstrings also document the variadic catch-alls (both spellings) and a stale name.",
 "C15": "dashed underline lines in header and footer; section kinds both / params / ret; routes docstring (with the original text), ir (from the interface alone) and function (parse + emit); clause HeaderWhole; the summary on its own line or right behind the opening quotes. Batch 7: line kind K -- a prose line that begins with a section keyword used as an ordinary word (Raises.. / Returns.. / Args.. / Kwargs.. / Parameters..), every keyword in every position of header and footer.",
 "C16": "name shapes ending in characters of '_tbl'; RoutesDescribeModel through the real route parser. Batch 7: on the document, nothing said under a model's paths (summaries, descriptions, $refs) names another model of the document.",
 "C17": "APIs route_parse / openapi_bulk with the yaml_block slot; API gen_phase2 with the import_from slot. Batch 7: API gen_imports_file (gen --imports-from-file with bare file names from inside the project directory, which is on sys.path). Batch 8b: payload kind pickled (a bytes literal next to type=pickle.loads); un-pickling (audit event pickle.find_class) counts as running data.",
 "C18": "batch 8b: every single import is repeated under -OO (and -O in the thorough tier); the public names left bound must be those of the plain run.",
 "C19": "mixed-kind inputs under --parse infer; ImportsCover as its own clause, judged in every cell that writes a module.",
 "C20": "a dotted exposed module with self-naming black/white lists (the blacklist wins); history option prior (an earlier real run populated the output directory); a sub-package whose name begins with the root package's name, blacklisted as <root>.<leaf>. Batch 8: an __init__ that re-exports from its module and from a sub-package (Exmod axis reexport).",
}

CHECKS = {
 "C07": dict(
  category="model_checking",
  text="DocTrans.tla: the doctrans pipeline as one action per step (read, ast parse, transform, compare, cst parse, replace, write) "
       "with a fault enabled before every step; programs of 1..2 definitions (function / async / method / nested / class x 8 "
       "signature shapes x docstring none/rest/google/numpydoc x block or one-line body) x 6 configurations x 7 fault points; TLC "
       "checks SameProgram, OthersUntouched, AtomicOnError and SingleWrite over ~102k behaviours (~500k states). Binding: every "
       "behaviour (seeded 2400 in quick; all 1-definition + 30000 2-definition in thorough) is rendered to real source with comments "
       "and unrelated statements around; the real doctrans runs in-process under the audit-hook recorder, faults are injected by "
       "wrapping the pipeline's callees; verdicts on the real file: still valid Python; AST identical once docstrings, parameter / "
       "return / variable annotations and type comments are erased; all comments still present in order; every line that is not "
       "a definition header, a docstring or an annotated assignment byte-identical; on failure the file byte-identical; at most "
       "one write and nothing else touched.",
  design_ref="DESIGN.md section 4, C07",
  note="Trusted: the program renderer, the AST eraser and the header/docstring line classifier of the harness.",
  technique="TLA+ pipeline model with crash points checked by TLC; every behaviour replayed through the real command with fault "
            "injection, judged by AST/tokenize/byte comparison and audit events"),
 "C12": dict(
  category="model_checking",
  text="Sync.tla: three files (class, method inside a class, argparse function), each missing / empty / holding one of three "
       "mutually different interfaces with or without surrounding code; Sync(truth) repeated 1..3 times; TLC checks AllEquivalent, "
       "TruthUnchanged, AroundUnchanged (invariants) and SecondRunNoop (action property) over all 504 (triple, truth) behaviours, "
       "ideal and as built. Binding: every behaviour (seeded 220 in quick, all 504 in thorough) is laid out as three real files -- "
       "targets emitted by the real emitters, surrounded by unrelated imports, a function before and a class after -- and the real "
       "sync command runs in-process 2 (quick) / 3 (thorough) times; after every run each target is re-parsed by the matching real "
       "parser and compared with the truth's interface (names, order, types, defaults, descriptions), the code outside the named "
       "targets and the truth's own interface are compared with their originals, and the bytes after run n+1 with those after run n.",
  design_ref="DESIGN.md section 4, C12",
  note="Trusted: the three fixed interfaces (common representable domain) and the AST projection of 'code outside the named targets'. "
       "Function/argparse targets are never rewritten today (listed finding pinned by the repository's own tests), so for those the "
       "check only proves that nothing else happens to them.",
  technique="TLA+ file-state machine with an action property checked by TLC; every behaviour replayed through the real command run "
            "repeatedly, targets re-parsed with the real parsers"),
 "C15": dict(
  category="model_checking",
  text="DocSplit.tla: a docstring as a sequence of line records (prose with opaque ids, blank, indented prose, doctest, section "
       "lines incl. the section's own blank separators) = header + section(style) + footer at indentation 0..2; Split and Restyle "
       "as operators; TLC checks SplitConcat, HeaderClean and HeaderKept over all 648 (header shape, footer shape, source style, "
       "target style, indentation) behaviours. Binding: every behaviour x 2 parameter sets is concretised -- the section is "
       "produced by the real emitter in the source style -- then split by the real parse_docstring_into_header_args_footer and "
       "converted by the real restyle path (parse_docstring -> docstring.emit with _internal.original_doc_str); verdicts: the "
       "three parts concatenate to the original exactly, no section token line in header/footer, every header prose line occurs "
       "in order in the converted text, no prose line is absorbed into a parsed type or default.",
  design_ref="DESIGN.md section 4, C15",
  note="Trusted: the concretisation of line records; prose is drawn from fixed sentences free of section tokens.",
  technique="TLA+ line-record model checked by TLC; every behaviour replayed through the real splitter and restyle path"),
 "C16": dict(
  category="model_checking",
  text="OpenApi.tla: a behaviour adds 1..3 models (5 name shapes x explicit/inferred primary key) one by one (AddModel = gen_routes + "
       "upsert_routes) and then builds the document (Bulk = openapi_bulk), x 7 CRUD subsets x 2 prefixes; the document is modelled "
       "as schema keys, request-body keys, $refs, (model, operation) pairs and declared path parameters; TLC checks Serialisable, "
       "Closed, BodiesDefined, PathParamsDeclared and OpsExact (ideal, ~16k states) and their as-built weakening. Binding: every "
       "behaviour (all 1-model, seeded 250 2-model in quick; all <=2-model + 1500 3-model in thorough) is laid out as real files "
       "-- models emitted by the real SQLAlchemy emitter, routes by the real gen_routes/upsert_routes, the document by the real "
       "openapi_bulk -- and the predicates are evaluated on the real document (json.dumps, every $ref resolved against the "
       "components, request bodies, path template parameters, operations per path); the direct emitter openapi.emit is judged "
       "the same way on 42 cases; routes.py must hold one route per requested operation and model.",
  design_ref="DESIGN.md section 4, C16",
  note="Trusted: the document projection ($ref collection, path/operation extraction).",
  technique="TLA+ model of models/routes/document checked by TLC; every behaviour replayed through the real generators and judged "
            "on the real document"),
 "C13": dict(
  category="model_checking",
  text="SyncProps.tla: the target definition as a sequence of slots [name, annotation, default, kw-only] (function, self/cls method "
       "or class; 1..4 positional with every suffix of defaults, 0..2 keyword-only, annotated or not), SyncProp(mode) for every "
       "target slot x input kind x mode (plain / wrap template / --input-eval); TLC checks OnlyTarget, DefaultsAligned, "
       "InputUntouched and TargetUpdated over all 4890 cases. Binding: every case (seeded 6000 in quick, all in thorough) is "
       "concretised as a real pair of modules, the real sync_properties runs, and the output module's AST is projected slot by "
       "slot and compared with the specification's post-state; the sibling definition, the rest of the target (first parameter, "
       "body, decorators, return annotation), every other statement and the input file must be unchanged.",
  design_ref="DESIGN.md section 4, C13",
  note="Trusted: the AST projection of the output module. 'Syntactically identical' is judged on the AST because the command "
       "re-formats the output file with black.",
  technique="TLA+ slot model checked by TLC; every case replayed through the real command and diffed against the spec post-state"),
 "C19": dict(
  category="model_checking",
  text="Gen.tla: the output file is absent or present; Gen(opts) over the full option matrix (9 parse kinds incl. infer x 8 emit kinds "
       "x name template x import inference x --prepend x --imports-from-file x output absent/present x 1..3 entries = 6912 "
       "records); TLC checks NoClobber and Exports (ideal) and their as-built weakening where every non-working (parse, emit) cell "
       "is a named deviation with its exact outcome. Binding: every matrix cell at least once plus a seeded sample (quick) / all "
       "records (thorough) are concretised -- the input module or schema file is produced by the real emitters from gamma-"
       "interfaces -- and the real gen command runs in-process under the audit-hook recorder. Verdicts: refusal leaves the "
       "existing file byte-identical and opens nothing for writing; otherwise the output compiles, defines exactly the templated "
       "symbols, __all__ lists exactly those names, every symbol parses back to its entry's interface, with inference on every "
       "typing/SQLAlchemy name used is imported, and nothing but the named output is written.",
  design_ref="DESIGN.md section 4, C19",
  note="Trusted: gamma; entries are interfaces on which the emit kind's single-hop round trip is exact (C02). Only the class and "
       "argparse emit kinds produce a module that satisfies the statement today; the other cells are listed findings.",
  technique="TLA+ option-matrix model checked by TLC; every record replayed through the real command, output judged with ast/compile "
            "and the real parsers, effects via audit hooks"),
 "C20": dict(
  category="model_checking",
  text="Exmod.tla: the file system as a set of paths, a package tree of 1..3 levels, Exmod(opts) with dry-run, recursion, "
       "blacklist/whitelist and a pre-existing or missing output directory; TLC checks DryRunPure, UnderOut, SourceUntouched and "
       "ExcludedSilent over all 832 option records (ideal) and their as-built weakening with the listed deviations. Binding: every "
       "option record (stratified 800 in quick, all in thorough) is laid out as a real package in a scratch directory and the real "
       "exmod command runs in-process under the audit-hook recorder; verdicts: the four predicates on before/after snapshots "
       "(paths, sha256) of the whole scratch tree, every generated .py is valid Python whose __all__ names defined or imported "
       "symbols, and the audit-event trace is validated by TLC against the Effects monitor (no write/mkdir/remove/rename at all "
       "on a dry run, only under the output directory otherwise).",
  design_ref="DESIGN.md section 4, C20",
  note="Trusted: snapshots + audit events as the observation of file-system effects; exmod runs in-process with the package's parent "
       "on sys.path. Crashes of individual emit kinds are not judged (only their effects are).",
  technique="TLA+ file-system model checked by TLC; every option record replayed through the real command with snapshot diff and "
            "audit-trace validation against the Effects monitor"),
 "C17": dict(
  category="model_checking",
  text="Effects.tla is a monitor of interpreter-level effects (exec by code shape, import, open-for-write / mkdir / remove / rename by "
       "location, spawn, socket) with the statement's one exception (sync_properties --input-eval) built in; composed with an "
       "adversary (input slot in default/type/description/module statement x payload in benign/call/dunder chain/import x API) TLC "
       "checks that `bad` is unreachable under the as-designed data flow. Binding: for every (API, slot, payload) TLC enumerates, "
       "the harness builds the adversarial module (payloads would create a sentinel file or import a sentinel module), runs the "
       "real API (4 parsers incl. merge_inner_function, all emitters on the parsed IR, doctrans, sync, sync_properties with and "
       "without --input-eval, gen from file with and without --prepend) under sys.addaudithook, and TLC validates every recorded "
       "event trace against the monitor (TraceEffects.tla, corrupted-trace demonstration on every run); sentinel files are an "
       "independent second oracle.",
  design_ref="DESIGN.md section 4, C17",
  note="Trusted: the event classification (code shape by opcodes, location by realpath). The docstring type probe (eval of a "
       "whitelisted call-free string) is read as treating input as data, as the property's author does. exmod is judged by C20.",
  technique="TLA+ effect monitor + adversary model checked by TLC; audit-event traces of the real code validated against the monitor"),
 "C05": dict(
  category="model_checking",
  text="Sql.tla: Emit writes one Column per parameter (column type, Enum for Literal, nullable from Optional/dict, default, comment, "
       "[PK]/[FK] markers) plus a synthetic integer id when no column is marked [PK]; Parse reads the columns back; TLC checks "
       "ExactlyOnePK, RoundTrip and Agree (the result does not depend on the variant) on the ideal rules over interfaces of 1..2 "
       "SQL-representable columns x 3 variants x 3 docstring styles x force_pk_id, and RoundTripOrDeviation as built. Binding: "
       "every dumped behaviour is emitted by the real emitter of the variant, rendered, re-read and parsed by the matching real "
       "parser; verdicts: re-parsed columns == gamma(Norm); exactly one primary_key=True in the rendered source; the real results "
       "of the variants of one interface are equal to each other.",
  design_ref="DESIGN.md section 4, C05",
  note="Trusted: gamma; identifiers are drawn from names that are not primary-key candidates by name; interface-level prose is not "
       "compared. The hybrid variant cannot be parsed back at all (listed finding), so Agree is judged between class and Table.",
  technique="TLA+ model of column emission/parse, TLC exhaustive, every behaviour replayed through real emit -> to_code -> ast.parse -> parse"),
 "C06": dict(
  category="model_checking",
  text="JsonSchema.tla: Emit(i) is the abstract schema document (description kind, per-property type/pattern/default/description, "
       "required set), SchemaOK the abstract counterpart of the statement's validity and consistency clauses, Parse reads the "
       "interface back; TLC checks Valid and RoundTrip on the ideal rules and their as-built weakenings with the listed "
       "deviations, over all interfaces of 0..2 JSON-representable parameters x prose present/absent x return present/absent. "
       "Binding: every dumped interface, plus seeded compositions of 3..8 parameters, is emitted by the real emitter, serialised, "
       "and judged with the external jsonschema package (draft 2020-12 meta-schema, each default validated against its own "
       "property schema, pattern acceptance of members and near-misses) and by the required <=> non-Optional clause; the real "
       "parser reads it back and the result is compared with the interface (Literal members as a set).",
  design_ref="DESIGN.md section 4, C06",
  note="Trusted: the jsonschema package installed offline into /verif/.deps by setup_cmd; gamma.",
  technique="TLA+ model of schema emission/validity/parse, TLC exhaustive, every behaviour replayed through the real emitter, an "
            "external validator and the real parser"),
 "C04": dict(
  category="model_checking",
  text="Exec.tla models Emit_f as the abstract artefact the emitter writes (class body entries, signature entries with the forced "
       "None default, add_argument keyword records), Observe_f as what CPython shows for such an artefact and Described_f as the "
       "same observation computed from the interface; TLC checks Observe_f(Emit_f(i)) = Described_f(i) over the executable domain "
       "x 4 emitters x 3 docstring styles. Binding: every dumped behaviour (all 1-parameter, seeded 3000 / all 2-parameter) is "
       "emitted by the real emitter, rendered with to_code, compiled and executed in a scratch namespace; the real observation "
       "(typing.get_type_hints + class __dict__, inspect.signature, ArgumentParser actions, parse_args with only the required "
       "options supplied) must equal gamma(Described). The unparse->reparse stability and emitted-AST = reparsed-AST clauses are "
       "asserted on every emission (modulo the -3 / USub(3) spelling of negative literals).",
  design_ref="DESIGN.md section 4, C04",
  note="The oracle for the observation is CPython itself; TLA+ supplies the enumeration and the expected observation. `required` "
       "follows the tool's convention (required <=> type not Optional). pydantic is not installed: BaseModel is bound to object.",
  technique="TLA+ model of emit/observe/described, TLC exhaustive, every emission executed in a real interpreter"),
 "C14": dict(
  category="model_checking",
  text="TraceIR.tla states the documented shape of the intermediate representation as nine named clauses (NameOK, DocOK, ReturnsOK, "
       "NoDup, SigCovered, ParamNamesOK, ParamKeysOK, ParamTypOK, ParamDocOK); every interface description returned by a real parser "
       "during the run is projected to a shape record and checked by TLC (one state per record, rejected records printed with "
       "their failing clauses, corrupted-record binding demonstration on every run). Drivers: re-parsed emissions of TLC-"
       "enumerated Formats/Docstring behaviours, every repository mock through the parser the repository's own infer() selects, "
       "grammar-generated docstrings in three styles and generated functions with every argument kind, and arbitrary text "
       "(TLC-enumerated token sequences plus seeded random fragments) for the docstring parser whenever it returns.",
  design_ref="DESIGN.md section 4, C14",
  note="Trusted: the shape projection (typ parses = ast.parse(typ, mode='eval')). Coverage outside the TLC-enumerated part is that of "
       "the seeded generators.",
  technique="TLA+ shape predicate evaluated by TLC on recorded parser outputs (batched trace validation); inputs partly TLC-enumerated"),
 "C10": dict(
  category="model_checking",
  text="Determinism.tla: two interpreter processes with different hash seeds, leaked state and call histories call the modelled "
       "API (parse of a function whose docstring documents any permutation of any subset of <=3/4 signature parameters); TLC "
       "checks Functional and Covered exhaustively (~1.2M states) and must REJECT the pinned set-iteration merge rule on every "
       "run. Binding: the TLC-enumerated inputs (as untyped and typed functions and as classes), emitters with inferred imports "
       "on 6 interfaces and a seeded population of 24 / 120 more (equal-valued defaults of different types) x 12 formats (two with type names the lookup tables do not hold: Determinism!CallTable) and the repository's mock docstrings are executed in fresh interpreter processes with "
       "PYTHONHASHSEED in {0..3, random} (quick) / {0..11, random x2} (thorough) and call orders natural / every call twice / "
       "reversed / shuffled; verdict: all observations of one (api, input) hash equal; the merged events are validated by TLC "
       "against TraceDeterminism.tla (with a corrupted-event binding demonstration).",
  design_ref="DESIGN.md section 4, C10",
  note="Trusted: sha256 of the serialised output as the observation. CLI commands (gen, sync, exmod) are exercised for determinism "
       "only through their emitters/parsers here.",
  technique="TLA+ two-process determinism model checked by TLC; real multi-process, multi-seed observations trace-validated"),
 "C03": dict(
  category="model_checking",
  text="Convert.tla (Mode=chain): state = (initial interface, current abstract interface or Top, formats visited); Hop(f) is one "
       "emit->render->re-read->parse round trip using the rules of FormatRules/DocRules. TLC checks PreservedIdeal and Commute "
       "for every chain of <=5 hops over {class, pydantic, function, argparse, docstring-rest} on the common representable "
       "domain (ideal rules, ~720k states) and Preserved on the as-built rules. Binding: every chain of length 2..3 x interface "
       "(exhaustive for 1 parameter in quick, 2 in thorough) and TLC -simulate chains of length 4..5 are replayed hop by hop "
       "through the real code; verdict: the core (names, order, types, defaults) of the real IR after every hop equals the "
       "initial core; a failing chain is a known finding only if a listed single-hop deviation fires on it in the model.",
  design_ref="DESIGN.md section 4, C03",
  note="Trusted: gamma; the fixed per-format configuration used inside chains (Convert!CfgOf). Common domain = scalar / "
       "Optional[scalar] / Literal types with a default on every parameter.",
  technique="TLA+ conversion state machine, TLC exhaustive over chains, behaviours replayed hop by hop through the real code"),
 "C08": dict(
  category="model_checking",
  text="Convert.tla (Mode=fix): the same format applied 2..4 times. TLC checks the action property Fix (after the first round a "
       "round changes nothing) on the ideal rules over the hostile domain (untyped entries, trigger-word descriptions, defaults in "
       "any position) and on the as-built rules with the listed C08 deviations. Binding: every (format, interface) behaviour is "
       "replayed through the real code and the real IR after round n+1 must equal the real IR after round n exactly; a later "
       "round that raises after round 1 succeeded is a failure.",
  design_ref="DESIGN.md section 4, C08",
  note="Trusted: gamma. Formats covered: class, pydantic, function, argparse, docstring in the three styles (Google/NumPy on the "
       "signature-legal domain), json_schema and the SQLAlchemy class and Table variants on their own domains (the hybrid "
       "variant cannot be parsed back at all: C05 finding).",
  technique="TLA+ conversion state machine with an action property, behaviours replayed round by round through the real code"),
 "C02": dict(
  category="model_checking",
  text="Formats.tla: a behaviour picks (format in class/pydantic/function/argparse, docstring style, emit_default_doc, "
       "type_annotations, kw-only) and a signature-legal interface of 0..2 typed parameters plus optional return. Norm is the "
       "identity up to the two normalisations the statement names; AsBuilt applies the named deviations listed as open. TLC "
       "checks RoundTrip (ideal) and RoundTripOrDeviation (as-built); every listed deviation must be reachable. Binding: every "
       "dumped behaviour (all 1-parameter cases + a seeded 5000 (quick) / all (thorough) 2-parameter cases) is concretised, "
       "emitted by the real emitter, rendered with to_code, re-read with ast.parse and parsed by the matching real parser; "
       "verdict: real == gamma(Norm).",
  design_ref="DESIGN.md section 4, C02",
  note="Trusted: gamma and the comparison. Untyped entries and entries without description are outside the modelled domain; the "
       "NumPy-docstring configurations and Google-with-return are listed input-class findings (checked only for staleness).",
  technique="TLA+ spec of emit/parse round trip with ideal and as-built rules, TLC exhaustive, every behaviour replayed through "
            "real emit -> to_code -> ast.parse -> parse"),
 "C01": dict(
  category="model_checking",
  text="Docstring.tla: a behaviour picks (style, emit_default_doc, emit_types) and an interface of 0..2 parameters (15 type shapes "
       "x compatible default kinds x description kinds) plus optional return. Norm(cfg, i) is what the statement demands of the "
       "re-parsed interface; AsBuilt applies the named deviations listed as open in known_findings.txt. TLC checks RoundTrip on "
       "the ideal rules and RoundTripOrDeviation on the as-built rules, and every listed deviation must be reachable. Binding: "
       "every dumped behaviour (all 1-parameter cases + a seeded 4000 (quick) / all ~290k (thorough) 2-parameter cases) is "
       "concretised and driven through the real emitter and parser; the verdict is real == gamma(Norm); a mismatch is a "
       "KNOWN-FINDING only if it equals gamma(AsBuilt) for an enabled deviation (or lies in a listed input class).",
  design_ref="DESIGN.md section 4, C01",
  note="Trusted: gamma (pools of representatives), the comparison (descriptions up to whitespace and a terminal full stop; with "
       "emit_types=False the type is exempt unless it contradicts the carried default). Entries without a description are "
       "outside the modelled domain.",
  technique="TLA+ spec of the round trip with ideal and as-built rules, TLC exhaustive over the abstract domain, every behaviour "
            "replayed through the real emitter/parser"),
 "C11": dict(
  category="model_checking",
  text="Loops.tla transcribes the five index-walking while-loops of the docstring emitter and scanners with an explicit variant "
       "each; TLC checks Progress (action property: every back-edge strictly decreases a bounded variant), Termination under "
       "weak fairness without any state constraint, and Linear (iterations <= len+2) over every character sequence of <=4 "
       "(quick) / <=6 (thorough) characters with every start index and over the expansion of every sequence of <=2 / <=3 "
       "docstring tokens; the emitter loop as it stood at the pinned commit must be rejected by TLC on every run (non-vacuity). "
       "Binding: every enumerated token sequence (x3 indent levels, plus seeded longer random texts) is concretised and run "
       "through ~25 real entry points (parse, split, emit as doc / param doc / original_doc_str, emit+reparse of the parsed IR, "
       "doctrans applied 3 times to a generated module) under a sys.monitoring loop monitor that counts every back-edge of "
       "every package loop per activation and aborts the call above 2000+200*n iterations, plus a wall-clock watchdog; the "
       "recorded observations are validated by TLC against TraceLoops.tla.",
  design_ref="DESIGN.md section 4, C11",
  note="Trusted: C-level loops (str methods, re, itertools) terminate; the bound constants A=2000, B=200 (measured worst case on "
       "the unchanged tree is ~9 iterations per input character). Recursion depth is not judged.",
  technique="TLA+ loop transcriptions with variants checked by TLC (Progress/Termination), enumerated inputs replayed into the "
            "real code under a back-edge-counting loop monitor; observations trace-validated"),
 "C09": dict(
  category="model_checking",
  text="Cst.tla is a character-level transcription of cst_scanner/cst_scan/cst_parser (str.strip, balanced_parentheses, "
       "is_triple_quoted, the shortest-match statement splitter). TLC checks Conservation in every state plus Lossless, "
       "NodesLossless and Tiling exhaustively for all sources of <=3 (quick) / <=4 (thorough, 137k sources, plus 200k random "
       "behaviours of <=5 tokens) tokens over a 19-token lexical alphabet. Binding: every enumerated source is concretised and "
       "run through the real scanner/parser and the same predicates are evaluated on the real output (verdict); chunk boundaries "
       "and line numbers are compared with the model (diagnostic). Repository files and seeded mutations are scanned with "
       "cst_scan wrapped and the recorded per-call length events validated by TLC against AbsCst (TraceCst.tla, with a "
       "corrupted-trace binding demonstration on every run).",
  design_ref="DESIGN.md section 4, C09",
  note="Trusted: the token->character concretisation; identifiers are represented by 'x'. Strings outside the lexical alphabet "
       "are covered only by the recorded file/mutation runs.",
  technique="TLA+ transcription of the scanner, TLC exhaustive over token sequences, every behaviour replayed into the real "
            "code; recorded scans trace-validated against an abstract scanner"),
 "C18": dict(
  category="model_checking",
  text="Imports.tla is CPython's import machine (sys.modules status, per-module bound names, submodule attribute set on "
       "completion, explicit stack) over the package's own top-level import/bind/use statements, which are re-extracted "
       "from the working tree on every run. TLC checks NoFailure exhaustively for every single start module and every "
       "ordered pair (~3.3M states). Binding: every start module and a seeded sample (quick) / all (thorough) ordered "
       "pairs are run in real fresh interpreters; the interpreter's exit status is the verdict and must agree with the "
       "model in both directions; public names are compared between the two orders.",
  design_ref="DESIGN.md section 4, C18",
  note="Trusted: the statement extractor (ast), the assumption that imports outside the package are atomic and succeed, "
       "that function bodies do not run at import time. The verdict itself comes only from real interpreters.",
  technique="TLA+ import-machine spec with constants extracted from the tree, TLC exhaustive over singles and ordered pairs, "
            "replayed in fresh interpreters"),
}

NOT_YET = "(unused) check not built yet (framework under construction; planned per DESIGN.md section 4)"

def main():
    m = {
     "version": 1,
     "setup_cmd": "sh /verif/setup.sh",
     "hooks": {
      "guard": "OFFSCALE_CDD_PYTHON_VERIF",
      "enable": "no source hooks in /repo: the harness observes through monkeypatched wrappers, sys.monitoring and audit hooks; "
                "./check exports OFFSCALE_CDD_PYTHON_VERIF=1 for its own use only",
      "baseline_off_cmd": "cd /repo && /venv/bin/python -m pytest -ra -q -p no:cacheprovider --timeout=900 --continue-on-collection-errors",
      "source_commits": [],
      "add_only": True,
     },
     "engines": [
      {"name": "tlc", "path": "/opt/veriftools/tla/tla2tools.jar", "serves_properties": sorted(CHECKS),
       "kind_free_text": "TLC 1.8 explicit-state model checker over /verif/spec/*.tla; behaviours are replayed into / traces validated from the real code by /verif/harness"},
     ],
     "checks": [],
     "notes": "One check per property: ./check <id> --tier quick|thorough. Exit 0 held / 1 VIOLATION / 2 machinery failure. "
              "known_findings.txt lists open findings and repaired defects.",
     "not_applicable": [],
    }
    for pid in ALL:
        if pid in CHECKS:
            c = CHECKS[pid]
            m["checks"].append({
             "property_id": pid,
             "quick_cmd": "./check %s --tier quick" % pid,
             "thorough_cmd": "./check %s --tier thorough" % pid,
             "evidence_file": "/verif/evidence/%s.json" % pid,
             "replay_cmd_template": "./check %s --replay {path}" % pid,
             "engine": "tlc",
             "level_claimed": {"category": c["category"],
                               "text": c["text"] + (" Extended since: " + EXT[pid] if pid in EXT else ""),
                               "design_ref": c["design_ref"] + ("; section 10.7" if pid in EXT else "")},
             "level_note": c["note"],
             "technique": c["technique"],
            })
        else:
            m["not_applicable"].append({"property_id": pid, "reason": NOT_YET})
    with open(os.path.join(HERE, "MANIFEST.json"), "w") as f:
        json.dump(m, f, indent=1)
    import jsonschema
    jsonschema.validate(m, json.load(open("/root/.vp/MANIFEST.schema.json")))
    for c in m["checks"]:
        ev = c["evidence_file"]
        if os.path.exists(ev):
            jsonschema.validate(json.load(open(ev)), json.load(open("/root/.vp/EVIDENCE.schema.json")))
    print("MANIFEST ok:", len(m["checks"]), "checks,", len(m["not_applicable"]), "not yet claimed")
main()
