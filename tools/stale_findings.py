#!/usr/bin/env python3
"""For every listed finding of the given properties: drop it from known_findings.txt (restored afterwards, whatever happens), run the
quick check, and report whether anything alarms.  A finding whose removal leaves the check silent is stale (repaired, or no longer reached).
A maintenance aid, run by hand on a quiet tree: it rewrites evidence files, so regenerate them afterwards.
usage: stale_findings.py C01 C02 ..."""
import re, subprocess, sys
V = "/verif"
P = V + "/known_findings.txt"
orig = open(P).read()
lines = orig.split("\n")
try:
    for pid in sys.argv[1:]:
        ids = [re.search(r"id=(\S+)", l).group(1) for l in lines if l.startswith("finding: property=%s " % pid)]
        for fid in ids:
            open(P, "w").write("\n".join(l for l in lines if not l.startswith("finding: property=%s id=%s " % (pid, fid))))
            r = subprocess.run([V + "/check", pid], cwd=V, capture_output=True, text=True)
            nv = r.stdout.count("VIOLATION property=")
            print(pid, fid, "exit", r.returncode, "violations", nv, "=> STALE" if r.returncode == 0 else "", flush=True)
finally:
    open(P, "w").write(orig)
