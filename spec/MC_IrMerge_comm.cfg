\* the merge is NOT commutative (the target takes precedence): TLC must find the counterexample (vacuity guard)
SPECIFICATION Spec
CONSTANTS
  Mode = "laws"
  Shard = 0
  NShards = 1
INVARIANT CommInv
CHECK_DEADLOCK FALSE
