\* the code after the fix: ordered merge, no API reads leaked state -> Functional holds
SPECIFICATION Spec
CONSTANTS
  MaxSig = 3
  MaxCalls = 2
  OrderedMerge = TRUE
  ReadsLeak = FALSE
  OrderedScan = TRUE
  Aliases = FALSE
INVARIANT Functional
INVARIANT Covered
INVARIANT CallerObjectUntouched
CHECK_DEADLOCK FALSE
