---------------------------------- MODULE AbsCst ----------------------------------
(* The abstract scanner: what cst_scanner must be for C09 to hold, with every classification
   decision left nondeterministic.  State is lengths only.

     pos       characters of the source consumed so far
     stackLen  characters held back in `stack`
     outLen    characters already emitted as chunks (sum of chunk lengths)

   PushChars(k): k characters are appended to the stack.
   Keep:         a scan that decides "not a statement yet" -- nothing moves.
   Flush(parts): a scan that moves characters from the stack to the output as one or more
                 non-empty chunks (the real scanner always moves the whole stack; the property
                 needs only that nothing is lost or invented in the move).
   Cst.tla refines this machine (checked by TLC as the action property AbsStep in MC_Cst.cfg);
   TraceCst.tla validates recorded executions of the real cst_scan against it.                *)
EXTENDS Naturals, Sequences

VARIABLES pos, stackLen, outLen
absvars == <<pos, stackLen, outLen>>

RECURSIVE SumSeq(_)
SumSeq(s) == IF s = <<>> THEN 0 ELSE Head(s) + SumSeq(Tail(s))

AbsInit == pos = 0 /\ stackLen = 0 /\ outLen = 0
PushChars(k) == pos' = pos + k /\ stackLen' = stackLen + k /\ UNCHANGED outLen
Keep == UNCHANGED absvars
Flush(parts) == /\ parts # <<>> /\ \A i \in 1..Len(parts) : parts[i] > 0
                /\ SumSeq(parts) <= stackLen
                /\ outLen' = outLen + SumSeq(parts) /\ stackLen' = stackLen - SumSeq(parts) /\ UNCHANGED pos

AbsConservation == outLen + stackLen = pos
=====================================================================================
