---------------------------------- MODULE TraceIR ----------------------------------
(* C14 (V): every interface description returned by a real parser is projected by the harness to a shape record
   and checked by TLC against IROK -- the documented shape of the intermediate representation.

   TRACE_FILE: a sequence of records
     [id, name, doc, returns, dups, sig, params : Seq([nonempty, star, keys, typ, doc])]
       name    "str" | "none" | "other"            doc     "str" | "none" | "missing" | "other"
       returns "none" | "return_type" | "other"    dups    TRUE iff a parameter name occurs twice
       sig     "na" | "covered" | "missing" | "extra"   (every signature parameter appears exactly once)
       params[k].keys   the entry's keys as a sequence of strings
       params[k].typ    "absent" | "parses" | "unparsable" | "nonstr"      params[k].doc  "absent" | "str" | "other"
   One state per record; the failing clauses of a rejected record are printed (verdicts are total).          *)
EXTENDS Naturals, Sequences, FiniteSets, TLC, Json, IOUtils

Recs == JsonDeserialize(IOEnv.TRACE_FILE)
N == Len(Recs)
AllowedKeys == {"typ", "doc", "default", "x_typ"}
ToSet(s) == {s[k] : k \in 1..Len(s)}

\* ---- the documented shape, clause by clause ---------------------------------------------------------------
NameOK(r) == r.name \in {"str", "none"}
DocOK(r) == r.doc = "str"
ReturnsOK(r) == r.returns \in {"none", "return_type"}
NoDup(r) == ~r.dups
\* every signature parameter appears exactly once; entries that the docstring documents BEYOND the signature ("extra") are not excluded
\* by the statement
SigCovered(r) == r.sig \in {"na", "covered", "extra"}
ParamNamesOK(r) == \A k \in 1..Len(r.params) : r.params[k].nonempty /\ ~r.params[k].star
ParamKeysOK(r) == \A k \in 1..Len(r.params) : ToSet(r.params[k].keys) \subseteq AllowedKeys
ParamTypOK(r) == \A k \in 1..Len(r.params) : r.params[k].typ \in {"absent", "parses"}
ParamDocOK(r) == \A k \in 1..Len(r.params) : r.params[k].doc \in {"absent", "str"}
IROK(r) == NameOK(r) /\ DocOK(r) /\ ReturnsOK(r) /\ NoDup(r) /\ SigCovered(r)
           /\ ParamNamesOK(r) /\ ParamKeysOK(r) /\ ParamTypOK(r) /\ ParamDocOK(r)

Failing(r) == (IF NameOK(r) THEN {} ELSE {"NameOK"}) \cup (IF DocOK(r) THEN {} ELSE {"DocOK"})
              \cup (IF ReturnsOK(r) THEN {} ELSE {"ReturnsOK"}) \cup (IF NoDup(r) THEN {} ELSE {"NoDup"})
              \cup (IF SigCovered(r) THEN {} ELSE {"SigCovered"}) \cup (IF ParamNamesOK(r) THEN {} ELSE {"ParamNamesOK"})
              \cup (IF ParamKeysOK(r) THEN {} ELSE {"ParamKeysOK"}) \cup (IF ParamTypOK(r) THEN {} ELSE {"ParamTypOK"})
              \cup (IF ParamDocOK(r) THEN {} ELSE {"ParamDocOK"})

VARIABLES t, ok
vars == <<t, ok>>
Init == t \in 1..N /\ ok = "pending"
RECURSIVE SetToSeq(_)
SetToSeq(S) == IF S = {} THEN <<>> ELSE LET x == CHOOSE x \in S : TRUE IN <<x>> \o SetToSeq(S \ {x})
Check == /\ ok = "pending"
         /\ IF IROK(Recs[t]) THEN ok' = "accepted"
            ELSE ok' = "rejected" /\ PrintT(ToJson([reject |-> Recs[t].id, clauses |-> SetToSeq(Failing(Recs[t]))]))
         /\ UNCHANGED t
Spec == Init /\ [][Check]_vars
\* the clause-wise report and the predicate agree
Consistent == ok = "accepted" => Failing(Recs[t]) = {}
=====================================================================================
