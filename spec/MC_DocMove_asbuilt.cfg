\* as built: types end up where asked, and in one place
SPECIFICATION Spec
CONSTANTS
  AsBuilt = TRUE
  MaxRuns = 3
  Shard = 0
  NShards = 1
INVARIANT Moved
INVARIANT OnePlace
CHECK_DEADLOCK FALSE
