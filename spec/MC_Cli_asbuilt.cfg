\* the command line as built: validation still precedes every effect and accepted invocations call their command once
SPECIFICATION Spec
CONSTANTS
  AsBuilt = TRUE
  Shard = 0
  NShards = 1
INVARIANT ValidateBeforeEffect
INVARIANT OneCall
CHECK_DEADLOCK FALSE
