---------------------------------- MODULE Effects ----------------------------------
(* C17 / C20: a monitor of interpreter-level effects (the audit events CPython raises) during one public call.

   call  = the API being executed: [api, evalmode, out]   evalmode: the user explicitly asked for evaluation
           (sync_properties --input-eval; gen --prepend); out: "file" | "dir" | "none" the named output
   The monitor reads one abstract event at a time:
     exec(shape)     shape = "modulefile"  code of a real module file of the interpreter / the package being imported
                             "probe"       dynamic code without call or import opcodes whose names are plain identifiers
                                           (the docstring type probe: eval("Union[int, str]"))
                             "call"        dynamic code containing a call / import opcode
                             "inputfile"   code compiled from the ANALYSED source
     import(cls)     cls = "other" | "analysed" | "sentinel"
     openw(where), mkdir(where), remove(where), rename(where)     where = "output" | "elsewhere" | "devnull"
     spawn, socket
   Allowed(call, e) is the property; everything else moves the monitor to bad.

   The design-level model composes the monitor with an adversary: every input slot (default, type, description,
   module-level statement) holds a benign or hostile payload, and the analysing API turns slots into events by the
   rules below (the as-designed data flow); TLC checks that `bad` is unreachable.                                 *)
EXTENDS Naturals, Sequences, FiniteSets, TLC, Json

\* "gen_phase2": gen --emit sqlalchemy --phase 2 (foreign keys of an already generated models file are resolved by LOCATING and
\* parsing the modules its `from .. import ..` statements name -- never by importing them)
Apis == {"parse", "emit", "doctrans", "sync", "sync_properties", "sync_properties_eval", "gen_file", "gen_prepend", "exmod", "exmod_dry",
         "route_parse", "openapi_bulk", "gen_phase2", "gen_imports_file"}
\* "gen_imports_file": gen --imports-from-file <a source file>, the file named the way a user in the project directory names it -- a bare
\* file name, the directory being on sys.path (`python -m cdd ...`): its import statements are READ from the text, the file is not imported
EvalMode(api) == api \in {"sync_properties_eval", "gen_prepend"}
OutOf(api) == CASE api \in {"doctrans", "sync", "sync_properties", "sync_properties_eval", "gen_file", "gen_prepend", "gen_phase2", "gen_imports_file"} -> "file"
                [] api = "exmod" -> "dir" [] OTHER -> "none"

\* sync_properties --input-eval is the statement's sole exception: the user asked for the input module to be evaluated,
\* so whatever that module does is the user's own code running
Allowed(api, e) ==
  IF api = "sync_properties_eval" THEN TRUE ELSE
  CASE e.k = "exec"   -> e.a \in {"modulefile", "probe"} \/ (e.a = "call" /\ EvalMode(api))
    [] e.k = "import" -> e.a = "other"
    [] e.k \in {"openw", "mkdir", "remove", "rename"} -> e.a = "devnull" \/ (e.a = "output" /\ OutOf(api) # "none")
    [] e.k \in {"spawn", "socket"} -> FALSE
    [] OTHER -> TRUE

\* ---- the adversary and the as-designed data flow --------------------------------------------------------------
\* "yaml_block": the ```yml block of a route's docstring (read by the route parser / openapi_bulk with a SAFE yaml loader:
\* python tags are rejected, nothing is constructed)
\* "import_from": a `from <module> import <Name>` statement of the analysed file whose <Name> a foreign-key column refers to; the
\* hostile payloads make <module> a package whose __init__ has side effects (benign: a plain module file)
Slots == {"default", "type", "description", "module_stmt", "yaml_block", "import_from"}
\* "pickled": a serialised object -- the bytes literal of a pickle whose LOADING has a side effect, next to `pickle.loads` as the type (the shape
\* the argparse emitter itself writes for defaults it cannot spell); reading it as data is fine, loading it runs what the data names
Payloads == {"benign", "call_expr", "dunder_chain", "import_stmt", "pickled"}
\* what an analysing API does with a slot: source text is parsed to an AST (compile with ONLY_AST: no exec event),
\* defaults go through literal_eval (no exec), a type guessed from prose passes a character whitelist (letters, digits,
\* brackets, comma, pipe, dot) before it is probed with eval: a call needs parentheses, which the whitelist rejects
PassesWhitelist(payload) == payload \in {"benign", "dunder_chain"}
EventsOf(api, slot, payload) ==
  CASE slot = "description" -> IF PassesWhitelist(payload) THEN <<[k |-> "exec", a |-> "probe"]>> ELSE <<>>
    [] slot = "module_stmt" /\ EvalMode(api) -> <<[k |-> "exec", a |-> IF payload = "benign" THEN "probe" ELSE "call"]>>
    [] OTHER -> <<>>

VARIABLES api, slot, payload, todo, bad
vars == <<api, slot, payload, todo, bad>>
Init == /\ api \in Apis /\ slot \in Slots /\ payload \in Payloads
        /\ todo = EventsOf(api, slot, payload) /\ bad = FALSE
Step == /\ todo # <<>>
        /\ bad' = (bad \/ ~Allowed(api, Head(todo)))
        /\ todo' = Tail(todo) /\ UNCHANGED <<api, slot, payload>>
Spec == Init /\ [][Step]_vars
NeverBad == ~bad
Dump == (todo = EventsOf(api, slot, payload)) => PrintT(ToJson([api |-> api, slot |-> slot, payload |-> payload]))
=====================================================================================
