------------------------------------ MODULE Loops ------------------------------------
(* The index-walking `while` loops of the docstring emitter / scanners (C11), transcribed with an
   explicit variant each.  One Step = one evaluation of the loop guard plus (if it holds) one body.

     L1 EmitSkip   cdd/docstring/emit.py            leading blank / whitespace-only line skip
     L2 NumpyWalk  docstring_utils._get_token_last_idx_if_no_next_token   line walk under a dashes line
     L3 MunchBack  docstring_utils._get_token_last_idx                     "munch until previous nl"
     L4 MunchFwd   docstring_utils._get_token_last_idx                     "munch until nl"
     L5 UnionWalk  docstring/utils/parse_utils._union_literal_from_sentence_phase0   i += n - 1 ... i += 1

   Inputs: Mode = "chars": every sequence of <= MaxLen characters over Chars, every start index;
           Mode = "tokens": the expansion of every sequence of <= MaxTok docstring tokens (section markers of
           the three styles, names, types, backticks, colons, newlines, indentation), loops started at line
           starts.  The token sequences are dumped and replayed through the real entry points.
           Mode = "pumped": a token (or a token TRUNCATED mid-way: "Defaults", ":param", "Args", "--"), then ONE token repeated PumpK
           times, then nothing or a word -- the shape on which "time proportional to the size of the input" is decided: a loop (or
           a pattern matcher) that is quadratic or worse in a run of one token shows on a long run, not on a short sequence.  The model
           checks Linear on runs of PumpK; the harness concretises every dumped (head, pumped, tail) with a run of 40.

   Advance = FALSE reproduces the pinned tree's emitter loop (no index is advanced): TLC reports the lasso. *)
EXTENDS Integers, Sequences, FiniteSets, TLC, Json

CONSTANTS Mode, MaxLen, MaxTok, Advance, Shard, NShards, PumpK

Chars == <<"NL", "SP", "x", "-", ":", "Q", ",", "BS", "TAB">>
IsWs(c) == c \in {"NL", "SP", "TAB"}              \* str.isspace: TAB stands for every whitespace character that is not " "

\* docstring tokens and their expansion into character classes
DocTokens == <<"NL", "IND", "WSLINE", "word", "dot", "colon", "tick", "rparam", "rtype", "rreturn", "rrtype",
               "gargs", "greturns", "graises", "gitem", "nparams", "nreturns", "dashes", "nitem", "defaults",
               "TAB", "NBSP", "or", "of">>
\* tokens cut short (the statement's "truncated mid-token"); used as the head of a pumped input
CutTokens == <<"defaults_cut", "rparam_cut", "gargs_cut", "dashes_cut", "nparams_cut">>
AllTokens == DocTokens \o CutTokens
W(n) == [i \in 1..n |-> "x"]
Expand(t) == CASE t = "NL" -> <<"NL">>
               [] t = "IND" -> <<"SP", "SP", "SP", "SP">>
               [] t = "WSLINE" -> <<"SP", "SP", "NL">>
               [] t = "word" -> W(3) \o <<"SP">>
               [] t = "dot" -> <<"x">>
               [] t = "colon" -> <<":">>
               [] t = "tick" -> <<"x">>
               [] t = "rparam" -> <<":">> \o W(5) \o <<"SP", "x", ":", "SP">>
               [] t = "rtype" -> <<":">> \o W(4) \o <<"SP", "x", ":", "SP">>
               [] t = "rreturn" -> <<":">> \o W(6) \o <<":", "SP">>
               [] t = "rrtype" -> <<":">> \o W(5) \o <<":", "SP">>
               [] t = "gargs" -> W(4) \o <<":", "NL">>
               [] t = "greturns" -> W(7) \o <<":", "NL">>
               [] t = "graises" -> W(6) \o <<":", "NL">>
               [] t = "gitem" -> <<"SP", "SP", "x", "SP", "x", "x", "x", "x", "x", ":", "SP", "x">>
               [] t = "nparams" -> W(10) \o <<"NL">>
               [] t = "nreturns" -> W(7) \o <<"NL">>
               [] t = "dashes" -> <<"-", "-", "-", "-", "NL">>
               [] t = "nitem" -> <<"x", "SP", ":", "SP", "x", "x", "x">>
               [] t = "defaults" -> W(8) \o <<"SP", "x", "x", "SP", "x">>
               [] t \in {"TAB", "NBSP"} -> <<"TAB">>
               [] t \in {"or", "of"} -> <<"SP", "x", "x", "SP">>
               [] t = "defaults_cut" -> W(8)
               [] t = "rparam_cut" -> <<":">> \o W(5)
               [] t = "gargs_cut" -> W(4)
               [] t = "dashes_cut" -> <<"-", "-">>
               [] t = "nparams_cut" -> W(10)

RECURSIVE Flat(_)
Flat(ss) == IF ss = <<>> THEN <<>> ELSE Head(ss) \o Flat(Tail(ss))

VARIABLES toks, s, loop, a, b, q, pc, iters
vars == <<toks, s, loop, a, b, q, pc, iters>>

N == Len(s)
At(i) == s[i + 1]                         \* 0-based indexing as in the code
\* str.find(NL, from) -> index or -1
Find(from) == LET idx == {i \in from..(N - 1) : i >= 0 /\ At(i) = "NL"}
              IN IF idx = {} THEN -1 ELSE CHOOSE i \in idx : \A j \in idx : i <= j
AllWs(i, j) == \A k \in i..(j - 1) : IsWs(At(k))       \* s[i:j].isspace() needs non-empty
IsSpaceSlice(i, j) == j > i /\ AllWs(i, j)
\* count_iter_items(takewhile(pred, s[i:]))
RECURSIVE RunLen(_, _)
RunLen(i, ws) == IF i >= N THEN 0
                 ELSE IF (ws /\ IsWs(At(i))) \/ (~ws /\ At(i) # "NL") THEN 1 + RunLen(i + 1, ws) ELSE 0

Loops == {"EmitSkip", "NumpyWalk", "MunchBack", "MunchFwd", "UnionWalk"}
LineStarts == {0} \cup {i + 1 : i \in {k \in 0..(N - 1) : At(k) = "NL"}}

Hash(ts) == LET RECURSIVE H(_) H(i) == IF i > Len(ts) THEN 0 ELSE ts[i] * (i + 6) + H(i + 1) IN H(1)
CharSeqs == UNION {[1..m -> 1..Len(Chars)] : m \in 0..MaxLen}
TokSeqs == UNION {[1..m -> 1..Len(DocTokens)] : m \in 0..MaxTok}
\* context, head, PumpK copies of one token, optional tail (token 4 = "word").  The context puts the pumped text at each syntactic
\* position of a docstring: the summary, a parameter description in each of the three styles, the return description
\* (8 = rparam, 10 = rreturn, 12 15 = gargs gitem, 16 18 19 1 2 = nparams dashes nitem NL IND)
Contexts == {<<>>, <<8>>, <<10>>, <<12, 15>>, <<16, 18, 19, 1, 2>>}
PumpSeqs == {c \o <<h>> \o [i \in 1..PumpK |-> t] \o tl : c \in Contexts, h \in 1..Len(AllTokens), t \in 1..Len(DocTokens), tl \in {<<>>, <<4>>}}
Inputs == IF Mode = "chars"
          THEN {[toks |-> <<>>, s |-> [i \in 1..Len(f) |-> Chars[f[i]]]] : f \in {g \in CharSeqs : Hash(g) % NShards = Shard}}
          ELSE {[toks |-> ts, s |-> Flat([i \in 1..Len(ts) |-> Expand(AllTokens[ts[i]])])] :
                    ts \in {g \in (IF Mode = "pumped" THEN PumpSeqs ELSE TokSeqs) : Hash(g) % NShards = Shard}}

Starts(l, str) == LET n == Len(str)
                      ls == {0} \cup {i : i \in {k \in 1..n : str[k] = "NL"}}
                  IN CASE l = "EmitSkip" -> {0}
                       [] l = "UnionWalk" -> {0}
                       [] l = "MunchBack" -> IF Mode = "chars" THEN (0 - n - 1)..n ELSE {i - 1 : i \in ls} \cup {n - 1}
                       [] OTHER -> IF Mode = "chars" THEN 0..n ELSE ls

Init == \E inp \in Inputs, l \in Loops :
          /\ toks = inp.toks /\ s = inp.s /\ loop = l
          /\ a \in Starts(l, inp.s)
          /\ b = 0 /\ q = 0 /\ pc = "enter" /\ iters = 0

\* ---- loop entry (the code before the loop) -----------------------------------------------------
Enter == /\ pc = "enter"
         /\ CASE loop = "EmitSkip" ->
                   \* reached only when the text is non-empty, not all whitespace and has a newline
                   IF N = 0 \/ AllWs(0, N) \/ Find(0) = -1
                   THEN pc' = "done" /\ UNCHANGED <<a, b>>
                   ELSE pc' = "head" /\ a' = 0 /\ b' = Find(0)          \* a = prev_nl, b = next_nl
              [] loop = "NumpyWalk" -> pc' = "head" /\ b' = a /\ UNCHANGED a   \* a = line_start, b = line_end
              [] OTHER -> pc' = "head" /\ UNCHANGED <<a, b>>
         /\ UNCHANGED <<toks, s, loop, q, iters>>

\* ---- one guard evaluation + body -----------------------------------------------------------------
StepEmitSkip ==
  IF b > -1
  THEN IF ~IsSpaceSlice(a, b) THEN pc' = "done" /\ UNCHANGED <<a, b>>                \* break
       ELSE /\ pc' = "head"
            /\ IF Advance THEN a' = b + 1 /\ b' = Find(b + 1) ELSE UNCHANGED <<a, b>>
  ELSE pc' = "done" /\ UNCHANGED <<a, b>>

StepNumpyWalk ==
  IF b < N
  THEN LET le == b + RunLen(a, FALSE) IN pc' = "head" /\ a' = le /\ b' = le + 1
  ELSE pc' = "done" /\ UNCHANGED <<a, b>>

InRange(i) == i >= 0 - N /\ i <= N - 1
PyAt(i) == IF i >= 0 THEN At(i) ELSE At(N + i)          \* negative indices count from the end
StepMunchBack ==
  IF a = 0 THEN pc' = "done" /\ UNCHANGED <<a, b>>
  ELSE IF ~InRange(a) THEN pc' = "raised" /\ UNCHANGED <<a, b>>       \* IndexError
  ELSE IF PyAt(a) # "NL" THEN pc' = "head" /\ a' = a - 1 /\ UNCHANGED b
  ELSE pc' = "done" /\ UNCHANGED <<a, b>>

StepMunchFwd ==
  IF a < N /\ At(a) # "NL" THEN pc' = "head" /\ a' = a + 1 /\ UNCHANGED b
  ELSE pc' = "done" /\ UNCHANGED <<a, b>>

StepUnionWalk ==
  IF a < N
  THEN LET ch  == At(a)
           i1  == IF IsWs(ch) THEN a + RunLen(a, TRUE) - 1 ELSE a
           q1  == IF ch = "Q" /\ (a = 0 \/ At(a - 1) # "BS") THEN q + 1 ELSE q
           i2  == IF ch = "Q" /\ (i1 + 2) < N /\ q1 % 2 = 0 /\ At(i1 + 1) = "," THEN i1 + 1 ELSE i1
       IN pc' = "head" /\ a' = i2 + 1 /\ q' = q1 /\ UNCHANGED b
  ELSE pc' = "done" /\ UNCHANGED <<a, b, q>>

Step == /\ pc = "head"
        /\ CASE loop = "EmitSkip"  -> StepEmitSkip /\ UNCHANGED q
             [] loop = "NumpyWalk" -> StepNumpyWalk /\ UNCHANGED q
             [] loop = "MunchBack" -> StepMunchBack /\ UNCHANGED q
             [] loop = "MunchFwd"  -> StepMunchFwd /\ UNCHANGED q
             [] loop = "UnionWalk" -> StepUnionWalk
        /\ iters' = iters + 1
        /\ UNCHANGED <<toks, s, loop>>

Next == Enter \/ Step
Spec == Init /\ [][Next]_vars /\ WF_vars(Next)

\* ---- properties -------------------------------------------------------------------------------------
Variant == CASE loop = "EmitSkip"  -> IF b = -1 THEN 0 ELSE N - b + 1
             [] loop = "NumpyWalk" -> IF b >= N THEN 0 ELSE N - b + 1     \* line_end may overshoot len(doc_str) on exit
             [] loop = "MunchBack" -> a + N + 2
             [] loop = "MunchFwd"  -> N - a + 1
             [] loop = "UnionWalk" -> N - a + 1

\* every back-edge strictly decreases a variant that is bounded below (an action property: no state
\* constraint can hide a cycle)
Progress == [][(pc = "head" /\ pc' = "head") => (Variant' < Variant /\ Variant' >= 0)]_vars
Termination == <>(pc \in {"done", "raised"})
\* "time proportional to the size of the input"
Linear == iters <= N + 2

Dump == (pc \in {"done", "raised"} /\ Mode \in {"tokens", "pumped"} /\ loop = "EmitSkip") =>
          PrintT(ToJson([toks |-> [i \in 1..Len(toks) |-> AllTokens[toks[i]]]]))
=====================================================================================
