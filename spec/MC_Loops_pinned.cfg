\* the emitter loop as it was at the pinned commit (no index advanced): TLC must report the lasso
SPECIFICATION Spec
CONSTANTS
  Mode = "chars"
  MaxLen = 3
  MaxTok = 0
  PumpK = 0
  Advance = FALSE
  Shard = 0
  NShards = 1
PROPERTY Progress
CHECK_DEADLOCK FALSE
