---------------------------------- MODULE DocLines ----------------------------------
(* The three docstring styles at the level of LINES: what the emitter writes and what the parser reads (C01, C15).

   A docstring is a sequence of line records [k, n, typ, doc, lex]:
     k    "text" (interface prose) | "blank"
          ReST:   "param" (`:param n: doc[. Defaults to ..]`), "type" (`:type n: ```typ``` `), "return", "rtype"
          Google: "ArgsHdr", "garg" (`  n (typ): doc` / `  n: doc`), "ReturnsHdr", "gret_typ" (`  typ:`), "gret_doc"
          NumPy:  "ParametersHdr", "dashes", "nname" (`n : typ` / `n`), "ndoc", "ReturnsHdr", "nret_typ", "ndoc"
     n    the parameter's position (0 for lines that belong to no parameter)
     typ  the type written on the line ("absent" if none)      doc  the description class
     lex  the lexical class of the text after "Defaults to" ("none" when no default is carried)
   EmitLines(cfg, i, asBuilt)   what the emitter writes.  asBuilt = the set of listed finding ids; one of them has an emitter-side cause
                       that is reproduced here: a RETURN entry whose type is not written gets no type line at all
                       (numpydoc_no_types_unparsable).  (A return-only section was glued to its heading until repaired.)
                       (Parameters whose type is not written lost their name line too, until repaired.)
   ParseLines(st, ls)  a fold over the lines, per style, returning an interface.
   RoundTripLines      ParseLines(EmitLines(i)) agrees with DocRules!Norm(cfg, i) -- a theorem about two separately
                       written halves, checked by TLC on the ideal emitter.                                        *)
EXTENDS CddTypes, TLC

D == INSTANCE DocRules

\* ---- lexical classes of the default prose ------------------------------------------------------------------
NeedsQuoting(t) == Base(t) \in {"str", "Lit"}
Lex(d, t) == CASE d = "absent" -> "none" [] d = "None" -> "cq_none"
               [] d = "int_pos" -> "decimal" [] d = "int_zero" -> "decimal_zero" [] d = "int_neg" -> "neg_decimal"
               [] d = "float_pos" -> "float_text" [] d = "float_neg" -> "neg_float_text"
               [] d = "bool_T" -> "True" [] d = "bool_F" -> "False"
               [] d = "str" -> (IF NeedsQuoting(t) THEN "dq_word" ELSE "bare_word")
               [] d = "str_empty" -> "dq_empty"                 \* `""`, typed or not (written as nothing at all until repaired, 2e64952)
               [] d = "code" -> "cq_code"
               [] d = "str_odd" -> (IF NeedsQuoting(t) THEN "dq_phrase" ELSE "bare_phrase")
               [] d = "str_dot" -> (IF NeedsQuoting(t) THEN "dq_dotted" ELSE "bare_dotted")
               [] d = "str_kw" -> (IF NeedsQuoting(t) THEN "dq_keyword" ELSE "bare_keyword")
               [] d = "float_exp" -> "exp_text" [] d = "int_big" -> "big_decimal"
\* the ideal reading of a lexical class, given the type that is known at that point ("absent" if none)
DefFromLex(lex, t) ==
  CASE lex = "none" -> "absent" [] lex = "cq_none" -> "None"
    [] lex = "decimal" -> (IF Base(t) = "float" THEN "float_pos" ELSE "int_pos")
    [] lex = "decimal_zero" -> "int_zero" [] lex = "neg_decimal" -> "int_neg"
    [] lex = "float_text" -> "float_pos" [] lex = "neg_float_text" -> "float_neg"
    [] lex = "True" -> "bool_T" [] lex = "False" -> "bool_F"
    [] lex \in {"dq_word", "bare_word"} -> "str" [] lex = "dq_empty" -> "str_empty" [] lex = "cq_code" -> "code"
    [] lex \in {"dq_phrase", "bare_phrase"} -> "str_odd" [] lex \in {"dq_dotted", "bare_dotted"} -> "str_dot" [] lex \in {"dq_keyword", "bare_keyword"} -> "str_kw" [] lex = "exp_text" -> "float_exp" [] lex = "big_decimal" -> "int_big"

L(k, n, typ, doc, lex) == [k |-> k, n |-> n, typ |-> typ, doc |-> doc, lex |-> lex]
Blank == L("blank", 0, "absent", "absent", "none")
Written(cfg, p) == p.typ # "absent" /\ (cfg.et \/ cfg.style = "google")
Carried(cfg, p) == IF cfg.edd THEN Lex(p.def, p.typ) ELSE "none"

\* ---- emit ---------------------------------------------------------------------------------------------------
RECURSIVE Concat(_)
Concat(ss) == IF ss = <<>> THEN <<>> ELSE Head(ss) \o Concat(Tail(ss))

EmitParam(cfg, p, n, asBuilt) ==
  LET w == Written(cfg, p) t == IF w THEN p.typ ELSE "absent" lx == Carried(cfg, p) IN
  CASE cfg.style = "rest" ->
         <<L("param", n, "absent", p.doc, lx)>> \o (IF w THEN <<L("type", n, t, "absent", "none")>> ELSE <<>>) \o <<Blank>>
    [] cfg.style = "google" -> <<L("garg", n, t, p.doc, lx)>>
    [] cfg.style = "numpydoc" ->
         <<L("nname", n, t, "absent", "none")>> \o <<L("ndoc", n, "absent", p.doc, lx)>>      \* (the name line is always written: repaired)
\* (as built a Google/NumPy return section that followed NO parameter section was glued to its heading -- "Returns:  int:" / "-------int" --
\* until repaired, 2780ff2)
\* (a description line is written only when there is a description; a return entry with nothing to write gets no lines at all)
EmitReturn(cfg, r, asBuilt) ==
  LET w == D!RetTypWritten(cfg, r) t == IF w THEN r.typ ELSE "absent" d == r.doc # "absent" IN
  IF ~D!RetWritten(cfg, r) THEN <<>> ELSE
  CASE cfg.style = "rest" -> (IF d THEN <<L("return", 0, "absent", r.doc, "none")>> ELSE <<>>) \o (IF w THEN <<L("rtype", 0, t, "absent", "none")>> ELSE <<>>)
    [] cfg.style = "google" -> <<L("ReturnsHdr", 0, "absent", "absent", "none"), L("gret_typ", 0, t, "absent", "none")>>
                                 \o (IF d THEN <<L("gret_doc", 0, "absent", r.doc, "none")>> ELSE <<>>)
    [] cfg.style = "numpydoc" -> <<L("ReturnsHdr", 0, "absent", "absent", "none"), L("dashes", 0, "absent", "absent", "none")>>
                                 \o <<L("nret_typ", 0, t, "absent", "none")>>
                                 \o (IF d THEN <<L("ndoc", 0, "absent", r.doc, "none")>> ELSE <<>>)
SectionHdr(cfg, i) == IF i.params = <<>> THEN <<>>
                      ELSE CASE cfg.style = "google" -> <<L("ArgsHdr", 0, "absent", "absent", "none")>>
                             [] cfg.style = "numpydoc" -> <<L("ParametersHdr", 0, "absent", "absent", "none"), L("dashes", 0, "absent", "absent", "none")>>
                             [] OTHER -> <<>>
EmitLines(cfg, i, asBuilt) ==
  <<L("text", 0, "absent", i.doc, "none"), Blank>>
  \o SectionHdr(cfg, i)
  \o Concat([k \in 1..Len(i.params) |-> EmitParam(cfg, i.params[k], k, asBuilt)])
  \o (IF cfg.style # "rest" /\ i.params # <<>> THEN <<Blank>> ELSE <<>>)
  \o (IF i.ret = D!NoRet \/ ~D!RetWritten(cfg, i.ret) THEN <<>>
      ELSE EmitReturn(cfg, i.ret, asBuilt))

\* ---- parse: a fold over the lines ------------------------------------------------------------------------------
\* accumulator: [doc, params : Seq(entry), ret, where]; an entry is [typ, def, doc]; `where` = "params" | "return"
NewEntry(ln) == [typ |-> ln.typ, def |-> DefFromLex(ln.lex, ln.typ), doc |-> ln.doc, lex |-> ln.lex]
\* a type that arrives after the description (ReST `:type`, after `:param`) re-reads the default with the type known
WithType(e, t) == [e EXCEPT !.typ = t, !.def = DefFromLex(e.lex, t)]
StepLine(acc, ln) ==
  CASE ln.k = "text" -> [acc EXCEPT !.doc = ln.doc]
    [] ln.k \in {"param", "garg"} -> [acc EXCEPT !.params = Append(@, NewEntry(ln))]
    [] ln.k = "type" -> [acc EXCEPT !.params = [@ EXCEPT ![Len(@)] = WithType(@, ln.typ)]]
    [] ln.k = "nname" -> [acc EXCEPT !.params = Append(@, [typ |-> ln.typ, def |-> "absent", doc |-> "absent", lex |-> "none"])]
    [] ln.k = "ndoc" /\ acc.where = "params" /\ acc.params # <<>> ->
         [acc EXCEPT !.params = [@ EXCEPT ![Len(@)] = [WithType([@ EXCEPT !.lex = ln.lex, !.doc = ln.doc], @.typ) EXCEPT !.doc = ln.doc]]]
    [] ln.k = "ReturnsHdr" -> [acc EXCEPT !.where = "return", !.ret = [typ |-> "absent", def |-> "absent", doc |-> "absent"]]
    [] ln.k = "return" -> [acc EXCEPT !.where = "return", !.ret = [typ |-> "absent", def |-> "absent", doc |-> ln.doc]]
    [] ln.k \in {"rtype", "gret_typ", "nret_typ"} -> [acc EXCEPT !.ret = [@ EXCEPT !.typ = ln.typ]]
    [] ln.k = "gret_doc" -> [acc EXCEPT !.ret = [@ EXCEPT !.doc = ln.doc]]
    [] ln.k = "ndoc" /\ acc.where = "return" -> [acc EXCEPT !.ret = [@ EXCEPT !.doc = ln.doc]]
    [] OTHER -> acc
RECURSIVE Fold(_, _)
Fold(acc, ls) == IF ls = <<>> THEN acc ELSE Fold(StepLine(acc, Head(ls)), Tail(ls))
NoneRet == [typ |-> "none", def |-> "absent", doc |-> "absent"]
ParseLines(ls) == Fold([doc |-> "absent", params |-> <<>>, ret |-> NoneRet, where |-> "params"], ls)

\* ---- the theorem -------------------------------------------------------------------------------------------------
EntryAgrees(e, n) == /\ n.present /\ e.typ \in n.typs /\ e.def = n.def /\ e.doc = n.doc
Agrees(parsed, norm) == /\ parsed.doc = norm.doc
                        /\ Len(parsed.params) = Len(norm.params)
                        /\ \A k \in 1..Len(norm.params) : EntryAgrees(parsed.params[k], norm.params[k])
                        /\ IF norm.ret.present THEN parsed.ret # NoneRet /\ parsed.ret.typ \in norm.ret.typs /\ parsed.ret.doc = norm.ret.doc
                           ELSE parsed.ret = NoneRet
RoundTripLines(cfg, i) == Agrees(ParseLines(EmitLines(cfg, i, {})), D!Norm(cfg, i))
=====================================================================================
