\* the algebraic laws of the merge, over all pairs of entries / all pairs of name sequences
SPECIFICATION Spec
CONSTANTS
  Mode = "laws"
  Shard = 0
  NShards = 1
INVARIANT LawsInv
CHECK_DEADLOCK FALSE
