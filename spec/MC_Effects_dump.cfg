SPECIFICATION Spec
INVARIANT NeverBad
INVARIANT Dump
CHECK_DEADLOCK FALSE
