SPECIFICATION Spec
CONSTANTS
  Enabled = {}
  Shard = 0
  NShards = 1
INVARIANT NoClobber
INVARIANT Exports
CHECK_DEADLOCK FALSE
