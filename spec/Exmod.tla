------------------------------------ MODULE Exmod ------------------------------------
(* C20: exmod --dry-run writes nothing; a real run stays inside the output directory.

   The file system is a set of paths.  A package tree of 1..3 levels is fixed by `levels`:
       1: pkg/{__init__, a}        2: + pkg/sub/{__init__, g}        3: + pkg/sub/deep/{__init__, d}
   Modules are named by their leaf ("a", "g", "d"); a module is *included* iff it lies within the levels walked
   (recursive or not), is not blacklisted and (the whitelist is empty or it is whitelisted).
   Exmod(opts): dry => fs' = fs; else fs' = fs \cup {out/<m> : m included} \cup {out/__init__}, nothing else.

   Properties: DryRunPure, UnderOut, SourceUntouched, ExcludedSilent.                                        *)
EXTENDS Naturals, Sequences, FiniteSets, TLC, Json

CONSTANTS Enabled, Shard, NShards

Mods == <<"a", "g", "d">>                       \* module leaf names by level
LevelOf(m) == CASE m = "a" -> 1 [] m = "g" -> 2 [] m = "d" -> 3
EmitKinds == {"class", "function", "argparse", "pydantic", "json_schema", "sqlalchemy", "sqlalchemy_table", "sqlalchemy_submodule"}
ModSet(levels) == {Mods[k] : k \in 1..levels}
Opts == {o \in [levels : 1..3, emit : EmitKinds, recursive : BOOLEAN, black : SUBSET {"a", "g"}, white : SUBSET {"a", "g"},
               dry : BOOLEAN, out_exists : BOOLEAN] :
           /\ o.black \subseteq ModSet(o.levels) /\ o.white \subseteq ModSet(o.levels)
           /\ (o.black = {} \/ o.white = {})                  \* one of the two filters at a time
           /\ Cardinality(o.black) <= 1 /\ Cardinality(o.white) <= 1}

Walked(o) == {m \in ModSet(o.levels) : o.recursive \/ LevelOf(m) = 1}
Included(o) == {m \in Walked(o) : m \notin o.black /\ (o.white = {} \/ m \in o.white)}
Excluded(o) == ModSet(o.levels) \ Included(o)

Src(o) == {<<"src", m>> : m \in ModSet(o.levels)}
Gen(o) == {<<"out", m>> : m \in Included(o)} \cup {<<"out", "__init__">>}

\* ---- named deviations ---------------------------------------------------------------------------------
DryWrites(o) == "dryrun_sqlalchemy_submodule_writes" \in Enabled /\ o.dry /\ o.emit = "sqlalchemy_submodule" /\ o.out_exists
FilterIgnored(o) == "filters_ignored_for_top_level_package" \in Enabled /\ (o.black # {} \/ o.white # {})
Fired(o) == (IF DryWrites(o) THEN {"dryrun_sqlalchemy_submodule_writes"} ELSE {})
            \cup (IF FilterIgnored(o) /\ ~o.dry THEN {"filters_ignored_for_top_level_package"} ELSE {})

VARIABLES o, fs, pc
vars == <<o, fs, pc>>
SE == INSTANCE SequencesExt
OptSeq == SE!SetToSeq(Opts)
Init == /\ o \in {OptSeq[k] : k \in {j \in 1..Len(OptSeq) : j % NShards = Shard}}
        /\ fs = Src(o) \cup (IF o.out_exists THEN {<<"out", "">>} ELSE {})
        /\ pc = "start"
Run == /\ pc = "start"
       /\ fs' = IF o.dry THEN (IF DryWrites(o) THEN fs \cup {<<"out", "sqlalchemy_mod">>} ELSE fs)
                ELSE fs \cup {<<"out", "">>} \cup (IF FilterIgnored(o) THEN {<<"out", m>> : m \in Walked(o)} \cup {<<"out", "__init__">>} ELSE Gen(o))
       /\ pc' = "done" /\ UNCHANGED o
Next == Run
Spec == Init /\ [][Next]_vars

Before == Src(o) \cup (IF o.out_exists THEN {<<"out", "">>} ELSE {})
DryRunPure == (pc = "done" /\ o.dry) => fs = Before
UnderOut == pc = "done" => \A p \in fs \ Before : p[1] = "out"
SourceUntouched == pc = "done" => {p \in fs : p[1] = "src"} = Src(o)
ExcludedSilent == (pc = "done" /\ ~o.dry) => \A m \in Excluded(o) : <<"out", m>> \notin fs
AllFour == DryRunPure /\ UnderOut /\ SourceUntouched /\ ExcludedSilent
AllFourOrDeviation == pc = "done" => (AllFour \/ Fired(o) # {})

RECURSIVE SetToSeq(_)
SetToSeq(S) == IF S = {} THEN <<>> ELSE LET x == CHOOSE x \in S : TRUE IN <<x>> \o SetToSeq(S \ {x})
Dump == pc = "done" => PrintT(ToJson([o |-> [levels |-> o.levels, emit |-> o.emit, recursive |-> o.recursive, dry |-> o.dry,
                                             out_exists |-> o.out_exists, black |-> SetToSeq(o.black), white |-> SetToSeq(o.white)],
                                      included |-> SetToSeq(Included(o)), excluded |-> SetToSeq(Excluded(o)),
                                      devs |-> SetToSeq(Fired(o))]))
=====================================================================================
