------------------------------------ MODULE Exmod ------------------------------------
(* C20: exmod --dry-run writes nothing; a real run stays inside the output directory.

   The file system is a set of paths.  A package tree of 1..3 levels is fixed by `levels`:
       1: pkg/{__init__, a}        2: + pkg/sub/{__init__, g}        3: + pkg/sub/deep/{__init__, d}
   Modules are named by their leaf ("a", "g", "d"); a module is *included* iff it lies within the levels walked
   (recursive or not), is not blacklisted and (the whitelist is empty or it is whitelisted).
   Exmod(opts): dry => fs' = fs; else fs' = fs \cup {out/<m> : m included} \cup {out/__init__}, nothing else.

   Properties: DryRunPure, UnderOut, SourceUntouched, ExcludedSilent.                                        *)
EXTENDS Naturals, Sequences, FiniteSets, TLC, Json

CONSTANTS Enabled, Shard, NShards

Mods == <<"a", "g", "d">>                       \* module leaf names by level
LevelOf(m) == CASE m = "a" -> 1 [] m = "g" -> 2 [] m = "d" -> 3
EmitKinds == {"class", "function", "argparse", "pydantic", "json_schema", "sqlalchemy", "sqlalchemy_table", "sqlalchemy_submodule"}
ModSet(levels) == {Mods[k] : k \in 1..levels}
\* expose = "top": `-m pkg` (filters name modules "a" / "g");  expose = "sub": `-m pkg.sub` (a dotted module: levels >= 2), where
\* the filters name the exposed package itself ("self") -- the blacklist wins over the whitelist
\* Below the exposed package every package is known to the filters as `<root>.<leaf>`: "self" = `pkg.sub`, "deep" = `pkg.<name of the
\* sub-sub-package>`.  deepname: that package is called `deep`, or its name BEGINS WITH the root package's name (`pkg_ext`).
AtMostOne(S) == {{}} \cup {{x} : x \in S}
Opts == {o \in [levels : 1..3, emit : EmitKinds, recursive : BOOLEAN, black : AtMostOne({"a", "g", "self", "deep"}), white : AtMostOne({"a", "g", "self"}),
               dry : BOOLEAN, out_exists : BOOLEAN, expose : {"top", "sub"}, prior : BOOLEAN, deepname : {"deep", "rootish"},
               reexport : {"flat", "nested"}] :
           \* reexport = "nested": the exposed package's __init__ re-exports from its plain module AND from its sub-package (`from pkg.sub import
           \* Gamma`), so that a second symbol is MERGED into an output __init__.py that already holds a re-export line
           /\ (o.reexport = "nested" => /\ ((o.expose = "top" /\ o.levels >= 2) \/ (o.expose = "sub" /\ o.levels = 3))
                                        /\ o.black = {} /\ o.white = {} /\ ~o.prior /\ o.deepname = "deep")
           \* prior: an earlier REAL run of the same command has already populated the output directory (a history: dry runs only)
           /\ (o.prior => o.dry /\ o.out_exists)
           /\ (o.expose = "top" => /\ o.black \subseteq ModSet(o.levels) /\ o.white \subseteq ModSet(o.levels)
                                    /\ (o.black = {} \/ o.white = {}))                  \* one of the two filters at a time
           /\ (o.deepname = "rootish" => o.expose = "sub" /\ o.levels = 3 /\ o.recursive)
           /\ ("deep" \in o.black => o.expose = "sub" /\ o.levels = 3 /\ o.recursive /\ o.white = {})
           /\ (o.expose = "sub" => /\ o.levels >= 2 /\ o.black \subseteq {"self", "deep"} /\ o.white \subseteq {"self"}
                                    /\ o.emit \in {"class", "function", "sqlalchemy"})}

\* (a nested re-export puts the sub-package's symbol into the exposed package's own __all__: its module is exposed without --recursive)
Walked(o) == IF o.expose = "top" THEN {m \in ModSet(o.levels) : o.recursive \/ LevelOf(m) = 1 \/ (o.reexport = "nested" /\ LevelOf(m) = 2)}
             ELSE {m \in ModSet(o.levels) \ {"a"} : o.recursive \/ LevelOf(m) = 2 \/ (o.reexport = "nested" /\ LevelOf(m) = 3)}
\* for a dotted exposed package the filters act on the package: its own module g is excluded when the package is blacklisted
\* (the blacklist wins); the sub-package's module d is excluded when a whitelist is given that does not name it
Included(o) == IF o.expose = "top" THEN {m \in Walked(o) : m \notin o.black /\ (o.white = {} \/ m \in o.white)}
               ELSE {m \in Walked(o) : IF m = "g" THEN "self" \notin o.black ELSE (o.white = {} /\ "deep" \notin o.black)}
\* the modules whose silence is demanded (for a blacklisted dotted package the statement does not say whether its sub-packages
\* go too: d is judged only under a whitelist)
Excluded(o) == IF o.expose = "top" THEN ModSet(o.levels) \ Included(o)
               ELSE (IF "self" \in o.black THEN {"g"} ELSE {}) \cup (IF (o.white # {} \/ "deep" \in o.black) /\ o.levels = 3 THEN {"d"} ELSE {})

Src(o) == {<<"src", m>> : m \in ModSet(o.levels)}
Unjudged(o) == IF o.expose = "sub" THEN {<<"out", m>> : m \in ModSet(o.levels)} ELSE {}
Gen(o) == {<<"out", m>> : m \in Included(o)} \cup {<<"out", "__init__">>}

\* ---- named deviations ---------------------------------------------------------------------------------
DryWrites(o) == "dryrun_sqlalchemy_submodule_writes" \in Enabled /\ o.dry /\ o.emit = "sqlalchemy_submodule" /\ o.out_exists
FilterIgnored(o) == "filters_ignored_for_top_level_package" \in Enabled /\ o.expose = "top" /\ (o.black # {} \/ o.white # {})
Fired(o) == (IF DryWrites(o) THEN {"dryrun_sqlalchemy_submodule_writes"} ELSE {})
            \cup (IF FilterIgnored(o) /\ ~o.dry THEN {"filters_ignored_for_top_level_package"} ELSE {})

VARIABLES o, fs, pc
vars == <<o, fs, pc>>
SE == INSTANCE SequencesExt
OptSeq == SE!SetToSeq(Opts)
RealRun(x) == {<<"out", "">>} \cup (IF FilterIgnored(x) THEN {<<"out", m>> : m \in Walked(x)} \cup {<<"out", "__init__">>} ELSE Gen(x))
Before == Src(o) \cup (IF o.prior THEN RealRun(o) ELSE IF o.out_exists THEN {<<"out", "">>} ELSE {})
\* (the sequence is handed over as an ARGUMENT: TLC evaluates an argument once, a definition indexed inside a set constructor every time)
ShardOf(seq) == {seq[k] : k \in {j \in 1..Len(seq) : j % NShards = Shard}}
Init == /\ o \in ShardOf(OptSeq)
        /\ fs = Before
        /\ pc = "start"
Run == /\ pc = "start"
       /\ fs' = IF o.dry THEN (IF DryWrites(o) THEN fs \cup {<<"out", "sqlalchemy_mod">>} ELSE fs)
                ELSE fs \cup RealRun(o)
       /\ pc' = "done" /\ UNCHANGED o
Next == Run
Spec == Init /\ [][Next]_vars

DryRunPure == (pc = "done" /\ o.dry) => fs = Before
UnderOut == pc = "done" => \A p \in fs \ Before : p[1] = "out"
SourceUntouched == pc = "done" => {p \in fs : p[1] = "src"} = Src(o)
ExcludedSilent == (pc = "done" /\ ~o.dry) => \A m \in Excluded(o) : <<"out", m>> \notin fs
AllFour == DryRunPure /\ UnderOut /\ SourceUntouched /\ ExcludedSilent
AllFourOrDeviation == pc = "done" => (AllFour \/ Fired(o) # {})

RECURSIVE SetToSeq(_)
SetToSeq(S) == IF S = {} THEN <<>> ELSE LET x == CHOOSE x \in S : TRUE IN <<x>> \o SetToSeq(S \ {x})
Dump == pc = "done" => PrintT(ToJson([o |-> [levels |-> o.levels, emit |-> o.emit, recursive |-> o.recursive, dry |-> o.dry,
                                             expose |-> o.expose, out_exists |-> o.out_exists, prior |-> o.prior, deepname |-> o.deepname, reexport |-> o.reexport, black |-> SetToSeq(o.black), white |-> SetToSeq(o.white)],
                                      included |-> SetToSeq(Included(o)), excluded |-> SetToSeq(Excluded(o)),
                                      devs |-> SetToSeq(Fired(o))]))
=====================================================================================
