---------------------------------- MODULE InferImports ----------------------------------
(* X08: which `from .. import ..` statements a piece of generated code needs (cdd.shared.ast_utils.infer_imports).

   `gen --emit-and-infer-imports` and `exmod` put the result on top of what they write; C19's ImportsCover clause sees only its
   consequences, and three seeded changes lived next to it.  No listed property says what the function owes its caller.

   A module is a sequence of OCCURRENCES [sym, pos] of symbols:
     sym   a name, known by its HOMES -- the modules whose __all__ lists it, among typing, typing_extensions, collections.abc, sqlalchemy
           (Optional: the two typing modules; Column: sqlalchemy only; Text: typing + sqlalchemy; Sequence: all four; Buffer: typing_extensions +
           collections.abc; Foo, int: none)
     pos   where it stands:  ann        x: S = ..               ann_arg  x: list[S] = ..         name   print(S)
                             deco       @S def ..               base     class C(S)              store  S = 5            (the module BINDS S)
                             local_def  class S: ..; S()  (binds S)      str_ann  x: 'S' = ..  (a forward reference)
                             attr       x: mod.S = ..  (qualified: needs no import)              attr_sub   x: mod.S[int] = ..
                             callable_list  x: Callable[[S], str] = ..    ellipsis  x: Callable[..., S] = ..    (both also use Callable)
   `order` is the priority in which the homes are asked (the two tuples the code ships: typing first / sqlalchemy first).

   What the caller is owed (Designed):
     Total      the function returns for every module
     Cover      every symbol with a home that occurs FREE (not bound by the module itself, not qualified) is imported -- also from a string annotation
     Sound      nothing is imported that the module binds itself, and nothing that does not occur
     FirstHome  a symbol is imported from exactly one module: the first of `order` that lists it
     Sorted     one statement per module, modules ascending, names ascending, no duplicates
   As built FirstHome and Sorted hold; TLC must refute the other three:
     Total  -- a qualified generic (mod.S[int]) raises AssertionError; a list or an ellipsis inside a subscript (Callable[[S], str],
               Callable[..., S]) makes the final sort compare an AST node with a string: TypeError
     Cover  -- a string annotation is not looked into
     Sound  -- every Name node counts, also assignment targets and references to a class the module defines itself: `S = 5` gets
               `from typing import S` put above it                                                                               *)
EXTENDS Naturals, Sequences, FiniteSets, TLC, Json

CONSTANTS AsBuilt, MaxOcc, Shard, NShards

Syms == {"Optional", "Column", "Text", "Sequence", "Buffer", "Foo", "int"}
Poss == {"ann", "ann_arg", "name", "deco", "base", "store", "local_def", "str_ann", "attr", "attr_sub", "callable_list", "ellipsis"}
Mods == {"typing", "typing_extensions", "collections.abc", "sqlalchemy"}
Homes(s) == CASE s = "Optional" -> {"typing", "typing_extensions"}
              [] s = "Column" -> {"sqlalchemy"}
              [] s = "Text" -> {"typing", "typing_extensions", "sqlalchemy"}
              [] s = "Sequence" -> Mods
              [] s = "Buffer" -> {"typing_extensions", "collections.abc"}
              [] s = "Callable" -> {"typing", "typing_extensions", "collections.abc"}
              [] OTHER -> {}
Orders == {"typing_first", "sql_first"}
OrderSeq(o) == IF o = "typing_first" THEN <<"typing", "typing_extensions", "collections.abc", "sqlalchemy">>
               ELSE <<"sqlalchemy", "typing", "typing_extensions", "collections.abc">>
First(o, hs) == LET q == OrderSeq(o) k == CHOOSE i \in 1..4 : q[i] \in hs /\ \A j \in 1..(i - 1) : q[j] \notin hs IN q[k]
\* ASCII order of the names involved (TLA+ has no order on strings)
ModRank(m) == CASE m = "collections.abc" -> 1 [] m = "sqlalchemy" -> 2 [] m = "typing" -> 3 [] m = "typing_extensions" -> 4
SymRank(s) == CASE s = "Buffer" -> 1 [] s = "Callable" -> 2 [] s = "Column" -> 3 [] s = "Optional" -> 4 [] s = "Sequence" -> 5 [] s = "Text" -> 6
                [] OTHER -> 9

Occs == [sym : Syms, pos : Poss]
Raising == {"attr_sub", "callable_list", "ellipsis"}
RECURSIVE SeqsUpTo(_)
SeqsUpTo(n) == IF n = 0 THEN {<<>>} ELSE SeqsUpTo(n - 1) \cup {Append(s, o) : s \in {t \in SeqsUpTo(n - 1) : Len(t) = n - 1}, o \in Occs}
\* (at most one occurrence on which the as-built function raises: which of two errors comes first is below this abstraction)
Modules == {m \in SeqsUpTo(MaxOcc) : Cardinality({k \in 1..Len(m) : m[k].pos \in Raising}) <= 1}
Range(m) == {m[k] : k \in 1..Len(m)}

Binds(m, s) == \E o \in Range(m) : o.sym = s /\ o.pos \in {"store", "local_def"}
Qualified(o) == o.pos \in {"attr", "attr_sub"}
\* the symbols an occurrence uses (the two Callable shapes also use Callable itself)
Uses(o) == IF o.pos \in {"callable_list", "ellipsis"} THEN {o.sym, "Callable"} ELSE IF Qualified(o) THEN {} ELSE {o.sym}
FreeSyms(m) == {s \in UNION {Uses(o) : o \in Range(m)} : Homes(s) # {} /\ ~Binds(m, s)}
\* what the as-built walk sees: every Name node and every annotation it can take apart
SeenSyms(m) == {s \in UNION {IF o.pos = "str_ann" \/ Qualified(o) THEN {} ELSE {o.sym} : o \in Range(m)} : Homes(s) # {}}

\* (f: a rank FUNCTION on the set)
RECURSIVE SortBy(_, _)
SortBy(S, f) == IF S = {} THEN <<>> ELSE LET x == CHOOSE x \in S : \A y \in S : f[x] <= f[y] IN <<x>> \o SortBy(S \ {x}, f)
ModRankF == [x \in Mods |-> ModRank(x)]
SymRankF == [x \in Syms \cup {"Callable"} |-> SymRank(x)]
Group(needed, o) ==
  LET mods == {First(o, Homes(s)) : s \in needed}
      ms == SortBy(mods, ModRankF)
  IN [k \in 1..Len(ms) |-> [mod |-> ms[k], names |-> SortBy({s \in needed : First(o, Homes(s)) = ms[k]}, SymRankF)]]
NoRaise(stmts) == [raises |-> "no", stmts |-> stmts]
Infer(m, o) ==
  IF ~AsBuilt THEN NoRaise(Group(FreeSyms(m), o))
  ELSE IF \E x \in Range(m) : x.pos = "attr_sub" THEN [raises |-> "AssertionError", stmts |-> <<>>]
  ELSE IF \E x \in Range(m) : x.pos \in {"callable_list", "ellipsis"} THEN [raises |-> "TypeError", stmts |-> <<>>]
  ELSE NoRaise(Group(SeenSyms(m), o))

VARIABLES m, order, out, pc
vars == <<m, order, out, pc>>
SE == INSTANCE SequencesExt
ModSeq == SE!SetToSeq(Modules)
ShardOf(seq) == {seq[k] : k \in {j \in 1..Len(seq) : j % NShards = Shard}}
Init == m \in ShardOf(ModSeq) /\ order \in Orders /\ out = NoRaise(<<>>) /\ pc = "start"
Run == pc = "start" /\ out' = Infer(m, order) /\ pc' = "done" /\ UNCHANGED <<m, order>>
Spec == Init /\ [][Run]_vars

Imported == UNION {{out.stmts[k].names[j] : j \in 1..Len(out.stmts[k].names)} : k \in 1..Len(out.stmts)}
Total == pc = "done" => out.raises = "no"
Cover == (pc = "done" /\ out.raises = "no") => FreeSyms(m) \subseteq Imported
Sound == (pc = "done" /\ out.raises = "no") => Imported \subseteq FreeSyms(m)
FirstHome == pc = "done" => \A k \in 1..Len(out.stmts) : \A j \in 1..Len(out.stmts[k].names) :
                               out.stmts[k].mod = First(order, Homes(out.stmts[k].names[j]))
Sorted == pc = "done" => /\ \A k \in 1..(Len(out.stmts) - 1) : ModRank(out.stmts[k].mod) < ModRank(out.stmts[k + 1].mod)
                         /\ \A k \in 1..Len(out.stmts) : /\ out.stmts[k].names # <<>>
                                                         /\ \A j \in 1..(Len(out.stmts[k].names) - 1) :
                                                              SymRank(out.stmts[k].names[j]) < SymRank(out.stmts[k].names[j + 1])
Dump == pc = "done" => PrintT(ToJson([m |-> m, order |-> order, out |-> out]))
=====================================================================================
