SPECIFICATION Spec
CONSTANTS
  AsBuilt = TRUE
  MaxLen = 2
  Shard = 0
  NShards = 1
INVARIANT Dump
CHECK_DEADLOCK FALSE
