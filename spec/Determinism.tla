---------------------------------- MODULE Determinism ----------------------------------
(* C10: output is a function of the input alone.

   Two interpreter processes A and B differ in their string-hash seed and in the calls they made before.
   The modelled API is the one the anchors single out: parsing a function whose docstring documents a subset /
   permutation `doc` of the signature parameters 1..n.  The result lists the documented parameters in documented
   order and then merges the undocumented ones:
       OrderedMerge = TRUE   in signature order                          (the code after the fix)
       OrderedMerge = FALSE  in the iteration order of a *set*, which the seed chooses   (the pinned code)
   A second place where an iteration order can decide the result: a description is scanned for the FIRST of several
   default-announcing phrases ("defaults to", "Default:", "Default value is"); `phr` lists the phrases present in the
   description in textual order.  The winner is the phrase of highest priority (lowest number):
       OrderedScan = TRUE    the candidates are tried in their fixed priority order          (the code as it is)
       OrderedScan = FALSE   the candidates are tried in the iteration order of a *set*      (a frozenset of candidates)
   `leak` models state leaking from earlier calls (a mutable default / module global): it may change between
   calls but a deterministic API never reads it (ReadsLeak = FALSE).

   A third place: the caller keeps ONE parsed object (an ast.FunctionDef) and converts it several times (what gen / sync-like drivers
   do).  A conversion builds an IR from the object; emitting a class REWRITES the body statements the IR holds (names of parameters
   become `self.<name>`).
       Aliases = FALSE   the IR owns a private copy of the body: the caller's object stays pristine      (the code as it is: deepcopy)
       Aliases = TRUE    the IR shares the statements with the caller's object: a class emission rewrites the caller's own AST, and
                         every later conversion of that object reads the rewritten body
   `obj[p]` is the state of the object the caller of process p keeps.

   A fourth place: a process-wide lookup TABLE (the SQLAlchemy emitters' `typ2column_type`: type name -> column type).  A column of a
   plain type T looks T up with a fallback; a column of `Union[L, T]` / an array of T decides by MEMBERSHIP of T in the table.
       Registers = FALSE   the table is only ever read                                               (the code as it is: `.get(T, T)`)
       Registers = TRUE    a lookup that misses leaves an entry behind (`.setdefault(T, T)`): the same union column is written
                           differently once any earlier conversion in the process had a plain column of type T
   `reg[p]` is the set of type names process p's table holds beyond its initial content.

   Functional: equal (api, input) => equal output, across processes, seeds and histories.                      *)
EXTENDS Naturals, Sequences, FiniteSets, TLC, Json

CONSTANTS MaxSig, MaxCalls, OrderedMerge, ReadsLeak, OrderedScan, Aliases, Registers,
          TableCalls       \* BOOLEAN: the table-consulting emissions are among the calls (kept out of the largest configuration)

Seeds == {1, 2}
Procs == {"A", "B"}

\* permutations of subsets of 1..n as sequences without repetition
RECURSIVE Inj(_, _)
Inj(S, k) == IF k = 0 THEN {<<>>} ELSE {Append(s, x) : s \in Inj(S, k - 1), x \in S} 
NoRep(s) == \A a, b \in 1..Len(s) : a # b => s[a] # s[b]
DocSeqs(n) == {s \in UNION {Inj(1..n, k) : k \in 0..n} : NoRep(s)}
MergeInputs == {x \in [n : 1..MaxSig, doc : UNION {DocSeqs(m) : m \in 1..MaxSig}, phr : {<<>>}] : \A k \in 1..Len(x.doc) : x.doc[k] <= x.n}
ScanInputs == [n : {1}, doc : {<<1>>}, phr : {s \in DocSeqs(3) : Len(s) >= 1}]
InputsOK == MergeInputs \cup ScanInputs

Range(s) == {s[k] : k \in 1..Len(s)}
RECURSIVE Asc(_)
Asc(S) == IF S = {} THEN <<>> ELSE LET m == CHOOSE x \in S : \A y \in S : x <= y IN <<m>> \o Asc(S \ {m})
RECURSIVE Desc(_)
Desc(S) == IF S = {} THEN <<>> ELSE LET m == CHOOSE x \in S : \A y \in S : x >= y IN <<m>> \o Desc(S \ {m})
\* the iteration order of a set under a given hash seed
SetOrder(seed, S) == IF seed = 1 THEN Asc(S) ELSE Desc(S)

Out(x, seed, leak) ==
  LET rest == (1..x.n) \ Range(x.doc)
      merged == IF OrderedMerge THEN Asc(rest) ELSE SetOrder(seed, rest)
      cands == Range(x.phr)
      winner == IF cands = {} THEN <<>> ELSE <<100 + (IF OrderedScan THEN Head(Asc(cands)) ELSE Head(SetOrder(seed, cands)))>>
  IN x.doc \o merged \o winner \o (IF ReadsLeak /\ leak > 0 THEN <<0>> ELSE <<>>)

\* conversions of the kept object: the record has the shape of the other inputs (n = 0 tells them apart) plus the target
SharedInputs == {[n |-> 0, doc |-> <<>>, phr |-> <<t>>] : t \in {1, 2}}           \* phr = <<1>>: to a function   <<2>>: to a class
ToClass(x) == x.phr = <<2>>
\* what a conversion of the kept object returns, given the state in which the parser finds the body
OutShared(x, body) == <<200 + x.phr[1]>> \o (IF ~ToClass(x) /\ body = "rewritten" THEN <<300>> ELSE <<>>)

\* emissions that consult the table: n = 0, doc = <<t>> names the type, phr = <<3>>: a plain column of t, <<4>>: a column of Union[int, t]
TableTypes == {1}                                                                   \* a type name the initial table does not hold
TableInputs == {[n |-> 0, doc |-> <<t>>, phr |-> <<k>>] : t \in TableTypes, k \in {3, 4}}
IsPlain(x) == x.phr = <<3>>
OutTable(x, table) == <<400 + x.phr[1], 600 + x.doc[1]>> \o (IF ~IsPlain(x) /\ x.doc[1] \in table THEN <<500>> ELSE <<>>)

VARIABLES seed, leak, calls, obj, reg
vars == <<seed, leak, calls, obj, reg>>

Init == /\ seed \in [Procs -> Seeds]
        /\ leak = [p \in Procs |-> 0]
        /\ calls = [p \in Procs |-> <<>>]
        /\ obj = [p \in Procs |-> "pristine"]
        /\ reg = [p \in Procs |-> {}]

Call(p, x) == /\ Len(calls[p]) < MaxCalls
              /\ calls' = [calls EXCEPT ![p] = Append(@, [input |-> x, out |-> Out(x, seed[p], leak[p])])]
              /\ leak' = [leak EXCEPT ![p] = @ + 1]           \* every call may leave state behind
              /\ UNCHANGED <<seed, obj, reg>>
CallShared(p, x) == /\ Len(calls[p]) < MaxCalls
                    /\ calls' = [calls EXCEPT ![p] = Append(@, [input |-> x, out |-> OutShared(x, obj[p])])]
                    /\ obj' = [obj EXCEPT ![p] = IF Aliases /\ ToClass(x) THEN "rewritten" ELSE @]
                    /\ leak' = [leak EXCEPT ![p] = @ + 1]
                    /\ UNCHANGED <<seed, reg>>
CallTable(p, x) == /\ Len(calls[p]) < MaxCalls
                   /\ calls' = [calls EXCEPT ![p] = Append(@, [input |-> x, out |-> OutTable(x, reg[p])])]
                   /\ reg' = [reg EXCEPT ![p] = IF Registers /\ IsPlain(x) THEN @ \cup {x.doc[1]} ELSE @]
                   /\ leak' = [leak EXCEPT ![p] = @ + 1]
                   /\ UNCHANGED <<seed, obj>>

Next == \/ \E p \in Procs, x \in InputsOK : Call(p, x)
        \/ \E p \in Procs, x \in SharedInputs : CallShared(p, x)
        \/ (TableCalls /\ \E p \in Procs, x \in TableInputs : CallTable(p, x))
Spec == Init /\ [][Next]_vars

Functional == \A p, q \in Procs : \A a \in 1..Len(calls[p]), b \in 1..Len(calls[q]) :
                 calls[p][a].input = calls[q][b].input => calls[p][a].out = calls[q][b].out
\* every signature parameter appears exactly once (C14's SigCovered, checked here because the merge produces it)
Covered == \A p \in Procs : \A a \in 1..Len(calls[p]) :
              LET c == calls[p][a] names == SelectSeq(c.out, LAMBDA v : v < 100) IN Len(names) = c.input.n /\ Range(names) = 1..c.input.n

\* what the caller handed in is still what the caller holds
CallerObjectUntouched == \A p \in Procs : obj[p] = "pristine"
\* the process-wide table is what it was when the process started
TableReadOnly == \A p \in Procs : reg[p] = {}

Stop == calls["A"] = <<>> /\ calls["B"] = <<>>
\* the inputs themselves are dumped once (from the initial states' point of view they are constants)
DumpInputs == (calls["A"] = <<>> /\ calls["B"] = <<>> /\ seed["A"] = 1 /\ seed["B"] = 1) =>
                 \A x \in InputsOK : PrintT(ToJson([n |-> x.n, doc |-> x.doc, phr |-> x.phr, out |-> Out(x, 1, 0)]))
=====================================================================================
