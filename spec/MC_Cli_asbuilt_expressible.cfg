\* as built, TLC must find that --type-annotations together with --no-word-wrap cannot be expressed
SPECIFICATION Spec
CONSTANTS
  AsBuilt = TRUE
  Shard = 0
  NShards = 1
INVARIANT ExpressibleInv
CHECK_DEADLOCK FALSE
