\* the code as it is, with the table-consulting emissions among the calls: the table is only read -> Functional and TableReadOnly hold
SPECIFICATION Spec
CONSTANTS
  MaxSig = 1
  MaxCalls = 2
  OrderedMerge = TRUE
  ReadsLeak = FALSE
  OrderedScan = TRUE
  TableCalls = TRUE
  Registers = FALSE
  Aliases = FALSE
INVARIANT Functional
INVARIANT Covered
INVARIANT CallerObjectUntouched
INVARIANT TableReadOnly
CHECK_DEADLOCK FALSE
