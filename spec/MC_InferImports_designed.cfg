SPECIFICATION Spec
CONSTANTS
  AsBuilt = FALSE
  MaxOcc = 2
  Shard = 0
  NShards = 1
INVARIANT Total
INVARIANT Cover
INVARIANT Sound
INVARIANT FirstHome
INVARIANT Sorted
CHECK_DEADLOCK FALSE
