---------------------------------- MODULE IrMerge ----------------------------------
(* ir_merge (cdd/shared/parse/utils/parser_utils.py): how two interface descriptions of the SAME thing are combined -- the
   signature's view and the docstring's view of a function, a class body and its docstring, a Table call and its comment.
   Every code parser goes through it (C02, C03, C10, C12, C14 rest on it), none of the listed properties states it.

   An entry is [doc, typ, def] over
       doc  "absent" (no key) | "empty" ("") | "d1" | "d2"
       typ  "absent" | "int" | "str" (simple types) | "OptInt" | "ListStr" (everything else)
       def  "absent" | "None" (the code-quoted None) | "zero" (0: falsy, but a value) | "v1" | "v2"
   MergeEntry(t, o)   target t takes precedence, other o fills the gaps:
       doc  o's, iff t has none (absent or empty) and o has one
       typ  o's, iff o has one and (t has none, or t's is a simple type and o's is not)   -- a richer type wins over a bare scalar
       def  o's, iff t has none (absent or None) and o has one
   MergeParams(T, O)  T's names in T's order (shared names merged), then O's other names in O's order
   MergeRet(t, o)     o's if t has no return entry; field-wise "first non-absent" otherwise
   Laws checked by TLC over ALL pairs of entries:
       Idempotent      MergeEntry(e, e) = e
       Stable          MergeEntry(MergeEntry(t, o), o) = MergeEntry(t, o)           merging the same source again changes nothing
       NoInvention     every field of the result is t's or o's, and is absent only if both are
       TargetKept      a description, a non-simple type and a real default of the target survive
       NamesCovered    the merged names are exactly the union, each once, T's order first
       Associative     Merge(Merge(a, b), c) = Merge(a, Merge(b, c))   (10^6 triples: the order in which three views are folded
                       does not matter -- the merge is a left-biased join on the order absent < simple type < other type)          *)
EXTENDS Naturals, Sequences, FiniteSets, TLC, Json

CONSTANTS Shard, NShards, Mode          \* Mode: "entries" | "params" | "rets" (what the dump enumerates) | "laws"

Docs == {"absent", "empty", "d1", "d2"}
Typs == {"absent", "int", "str", "OptInt", "ListStr"}
Defs == {"absent", "None", "zero", "v1", "v2"}
Entries == [doc : Docs, typ : Typs, def : Defs]
Simple(t) == t \in {"int", "str"}
NoDoc(d) == d \in {"absent", "empty"}
NoDef(d) == d \in {"absent", "None"}

MergeEntry(t, o) ==
  [doc |-> IF NoDoc(t.doc) /\ ~NoDoc(o.doc) THEN o.doc ELSE t.doc,
   typ |-> IF o.typ # "absent" /\ (t.typ = "absent" \/ (Simple(t.typ) /\ ~Simple(o.typ))) THEN o.typ ELSE t.typ,
   def |-> IF NoDef(t.def) /\ o.def # "absent" THEN o.def ELSE t.def]

\* parameters: a sequence of [name, e]
Names(P) == [k \in 1..Len(P) |-> P[k].name]
Range(s) == {s[k] : k \in 1..Len(s)}
Lookup(P, n) == (CHOOSE k \in 1..Len(P) : P[k].name = n)
MergeParams(T, O) ==
  [k \in 1..Len(T) |-> IF T[k].name \in Range(Names(O)) THEN [name |-> T[k].name, e |-> MergeEntry(T[k].e, O[Lookup(O, T[k].name)].e)] ELSE T[k]]
  \o SelectSeq(O, LAMBDA p : p.name \notin Range(Names(T)))

\* the return entry: NoRet or an entry; field-wise first non-absent (an entry without any field counts as none)
EmptyEntry == [doc |-> "absent", typ |-> "absent", def |-> "absent"]
NoRet == [doc |-> "NONE", typ |-> "NONE", def |-> "NONE"]              \* (a record, so that the set of return values is uniform)
MergeRet(t, o) == IF t = NoRet THEN o ELSE IF o = NoRet THEN t
                  ELSE IF t = EmptyEntry THEN o ELSE IF o = EmptyEntry THEN t
                  ELSE [doc |-> IF t.doc = "absent" THEN o.doc ELSE t.doc, typ |-> IF t.typ = "absent" THEN o.typ ELSE t.typ,
                        def |-> IF t.def = "absent" THEN o.def ELSE t.def]

\* ---- the laws (constant-level: evaluated over all pairs / triples) ------------------------------------------------------------
Idempotent == \A e \in Entries : MergeEntry(e, e) = e
Stable == \A t, o \in Entries : MergeEntry(MergeEntry(t, o), o) = MergeEntry(t, o)
NoInvention == \A t, o \in Entries : LET m == MergeEntry(t, o) IN
                 /\ m.doc \in {t.doc, o.doc} /\ m.typ \in {t.typ, o.typ} /\ m.def \in {t.def, o.def}
                 /\ (m.typ = "absent" => t.typ = "absent" /\ o.typ = "absent") /\ (m.def = "absent" => t.def = "absent" /\ o.def = "absent")
                 /\ (m.doc = "absent" => t.doc = "absent" /\ NoDoc(o.doc))
TargetKept == \A t, o \in Entries : LET m == MergeEntry(t, o) IN
                 /\ (~NoDoc(t.doc) => m.doc = t.doc) /\ (~NoDef(t.def) => m.def = t.def)
                 /\ ((t.typ # "absent" /\ ~Simple(t.typ)) => m.typ = t.typ)
Associative == \A a, b, c \in Entries : MergeEntry(MergeEntry(a, b), c) = MergeEntry(a, MergeEntry(b, c))

\* name structures: injective sequences over three names, entries fixed
NameSeqs == {s \in UNION {[1..n -> {"a", "b", "c"}] : n \in 0..3} : \A i, j \in 1..Len(s) : i # j => s[i] # s[j]}
TE == [doc |-> "d1", typ |-> "absent", def |-> "absent"]          \* the target's entries carry a description only
OE == [doc |-> "d2", typ |-> "int", def |-> "v1"]                 \* the other's carry everything
PT(s) == [k \in 1..Len(s) |-> [name |-> s[k], e |-> TE]]
PO(s) == [k \in 1..Len(s) |-> [name |-> s[k], e |-> OE]]
NamesCovered == \A s, r \in NameSeqs : LET m == Names(MergeParams(PT(s), PO(r))) IN
                  /\ Range(m) = Range(s) \cup Range(r) /\ Len(m) = Cardinality(Range(s) \cup Range(r))
                  /\ SubSeq(m, 1, Len(s)) = s

\* ---- the machine: one merge per behaviour, dumped for the conformance run ------------------------------------------------------
VARIABLES t, o, pc, m
vars == <<t, o, pc, m>>
SE == INSTANCE SequencesExt
Rets == {NoRet, EmptyEntry} \cup [doc : {"absent", "empty", "d1"}, typ : {"absent", "int", "OptInt"}, def : {"absent", "None", "v1"}]
Pairs == CASE Mode = "entries" -> Entries \X Entries
           [] Mode = "params" -> {<<PT(s), PO(r)>> : s \in NameSeqs, r \in NameSeqs}
           [] Mode = "rets" -> Rets \X Rets
           [] Mode = "laws" -> {<<EmptyEntry, EmptyEntry>>}            \* one behaviour: the laws are constant-level
PairSeq == SE!SetToSeq(Pairs)
\* (the sequence is handed over as an ARGUMENT: TLC evaluates an argument once, a definition indexed inside a quantifier every time)
ShardOf(seq) == {seq[k] : k \in {j \in 1..Len(seq) : j % NShards = Shard}}
Init == /\ \E pr \in ShardOf(PairSeq) : t = pr[1] /\ o = pr[2]
        /\ pc = "start" /\ m = "none"
Merge == /\ pc = "start"
         /\ m' = CASE Mode \in {"entries", "laws"} -> MergeEntry(t, o) [] Mode = "params" -> MergeParams(t, o) [] Mode = "rets" -> MergeRet(t, o)
         /\ pc' = "done" /\ UNCHANGED <<t, o>>
Spec == Init /\ [][Merge]_vars
Laws == Idempotent /\ Stable /\ NoInvention /\ TargetKept /\ NamesCovered /\ Associative
LawsInv == pc \in {"start", "done"} => Laws
\* a law that must NOT hold (vacuity guard for the law checker): the merge is not commutative
Commutative == \A a, b \in Entries : MergeEntry(a, b) = MergeEntry(b, a)
CommInv == pc \in {"start", "done"} => Commutative
Dump == pc = "done" => PrintT(ToJson([mode |-> Mode, t |-> t, o |-> o, m |-> m]))
=====================================================================================
