\* as built the decision is not the inverse of the emitters: TLC must find an emitter whose output is sent to another parser
SPECIFICATION Spec
CONSTANTS
  AsBuilt = TRUE
INVARIANT EmitInverse
CHECK_DEADLOCK FALSE
