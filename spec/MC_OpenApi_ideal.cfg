SPECIFICATION Spec
CONSTANTS
  MaxModels = 3
  Enabled = {}
  Shard = 0
  NShards = 1
INVARIANT All5
CHECK_DEADLOCK FALSE
