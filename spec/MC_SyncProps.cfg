SPECIFICATION Spec
CONSTANTS
  Enabled = {}
  Shard = 0
  NShards = 1
INVARIANT OnlyTarget
INVARIANT DefaultsAligned
INVARIANT InputUntouched
INVARIANT TargetUpdated
CHECK_DEADLOCK FALSE
