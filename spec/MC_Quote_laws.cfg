SPECIFICATION Spec
CONSTANTS
  MaxLen = 3
  Shard = 0
  NShards = 1
INVARIANT Idempotent
INVARIANT Inverse
INVARIANT QuotedOrEmpty
CHECK_DEADLOCK FALSE
