SPECIFICATION Spec
CONSTANTS
  MaxParams = 2
  Enabled = {}
  Shard = 0
  NShards = 1
INVARIANT ExactlyOnePK
INVARIANT RoundTrip
INVARIANT Agree
CHECK_DEADLOCK FALSE
