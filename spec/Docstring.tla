---------------------------------- MODULE Docstring ----------------------------------
(* C01: interface -> docstring (ReST / Google / NumPy) -> interface.

   A behaviour picks a configuration and an interface, emits, parses, and ends.  `Norm` is what the property
   demands of the re-parsed interface (ideal); `AsBuilt` is Norm with the named deviations of Deviations applied.
   The harness replays every behaviour through the real emitter and parser and compares the REAL result with
   gamma(Norm) (verdict) and gamma(AsBuilt) (known-finding matching).                                            *)
EXTENDS CddTypes, TLC, Json
INSTANCE DocRules
DL == INSTANCE DocLines

CONSTANTS MaxParams,        \* 1 or 2 (3+ by -simulate)
          Reduced,          \* TRUE: parameters after the first come from a reduced set (keeps the product small)
          Enabled,          \* set of enabled deviation ids ({} = ideal rules)
          Shard, NShards

Styles == <<"rest", "google", "numpydoc">>
Bools == {TRUE, FALSE}
CfgSeq == <<[style |-> "rest", edd |-> TRUE, et |-> TRUE],   [style |-> "rest", edd |-> TRUE, et |-> FALSE],
            [style |-> "rest", edd |-> FALSE, et |-> TRUE],  [style |-> "rest", edd |-> FALSE, et |-> FALSE],
            [style |-> "google", edd |-> TRUE, et |-> TRUE], [style |-> "google", edd |-> TRUE, et |-> FALSE],
            [style |-> "google", edd |-> FALSE, et |-> TRUE], [style |-> "google", edd |-> FALSE, et |-> FALSE],
            [style |-> "numpydoc", edd |-> TRUE, et |-> TRUE], [style |-> "numpydoc", edd |-> TRUE, et |-> FALSE],
            [style |-> "numpydoc", edd |-> FALSE, et |-> TRUE], [style |-> "numpydoc", edd |-> FALSE, et |-> FALSE]>>
WW == {TRUE, FALSE}

\* ---- the docstring-representable domain (the property's quantifier) ---------------------------------
DocTyps == Typs \ {"dict", "Opt_dict"}
DocParams == ParamsOver(DocTyps, Defs, {"plain", "dot"})
SmallParams == ParamsOver({"int", "str", "Opt_int", "absent"}, {"absent", "None", "int_pos", "str"}, {"plain"})
\* "long": a description long enough to be word-wrapped; it is concretised as a SWEEP of lengths, so that the wrap column falls on every
\* part of the line -- the description, the words `Defaults to`, the default value itself -- in turn (single parameter, no return entry)
LongParams == ParamsOver({"int", "str", "Opt_str"}, {"absent", "int_pos", "str_odd", "None"}, {"long"})
\* ... and next to a second, short parameter on either side: what the parser does with an entry depends on whether it is the LAST one
\* (the last entry is flushed through a different path than the ones before it)
NeighbourParams == ParamsOver({"int"}, {"absent", "int_pos"}, {"plain"})
LongSeqs == {<<p>> : p \in LongParams} \cup {<<p, q>> : p \in LongParams, q \in NeighbourParams} \cup {<<q, p>> : p \in LongParams, q \in NeighbourParams}
RetTyps == {"int", "Opt_str", "Dotted"}
\* (a return entry may be typed without being described: doc "absent")
Rets == {NoRet} \cup [typ : RetTyps, def : {"absent"}, doc : {"plain"}] \cup {[typ |-> "int", def |-> "absent", doc |-> "absent"]}
ParamSeqs == {<<>>} \cup {<<p>> : p \in DocParams}
             \cup (IF MaxParams >= 2
                   THEN {<<p, r>> : p \in DocParams, r \in (IF Reduced THEN SmallParams ELSE DocParams)}
                   ELSE {})
InDomain(cfg, ps) == cfg.style = "rest" \/ SigLegal(ps)       \* Google/NumPy: defaults form a suffix

\* keep: the parser is asked to KEEP the sentence `Defaults to ..` in the description (the library's own default) instead of stripping it
\* again; the default must be extracted all the same.  (Varied where a default is carried, for interfaces of <= 1 TYPED parameter: with the
\* sentence left in place the prose type heuristics read it too, which for untyped entries is C08's hostile territory.)
VARIABLES cfg, i, pc, lines, out, fired, keep
vars == <<cfg, i, pc, lines, out, fired, keep>>

Init == /\ cfg \in {CfgSeq[k] : k \in {j \in 1..Len(CfgSeq) : j % NShards = Shard}}
        /\ \E ps \in ParamSeqs \cup LongSeqs, r \in Rets, d \in {"one"} :
              /\ InDomain(cfg, ps)
              /\ ((\E k \in 1..Len(ps) : ps[k].doc = "long") => r = NoRet)
              /\ i = [doc |-> d, params |-> ps, ret |-> r]
              /\ keep \in (IF cfg.edd /\ Len(ps) <= 1 /\ (\A k \in 1..Len(ps) : ps[k].typ # "absent") THEN BOOLEAN ELSE {FALSE})
        /\ pc = "start" /\ lines = <<>> /\ out = "none" /\ fired = {}

\* Emit: the docstring as a sequence of line records (as built when deviations are enabled)
Emit == /\ pc = "start"
        /\ lines' = DL!EmitLines(cfg, i, Enabled)
        /\ pc' = "emitted" /\ UNCHANGED <<cfg, i, out, fired, keep>>
\* Parse: the interface read back
Parse == /\ pc = "emitted"
         /\ LET ab == AsBuilt(Enabled, [style |-> cfg.style, edd |-> cfg.edd, et |-> cfg.et, keep |-> keep], i) IN out' = ab.out /\ fired' = ab.fired
         /\ pc' = "done" /\ UNCHANGED <<cfg, i, lines, keep>>

Next == Emit \/ Parse
Spec == Init /\ [][Next]_vars

\* the property (on the ideal rules: Enabled = {}), and its as-built weakening
RoundTrip == pc = "done" => out = Norm(cfg, i)
RoundTripOrDeviation == pc = "done" => (out = Norm(cfg, i) \/ fired # {})
\* the line-level theorem: the ideal emitter's lines, read by the line parser, agree with Norm
LinesTheorem == pc = "emitted" => DL!RoundTripLines(cfg, i)

ToSeq(S) == CHOOSE f \in [1..Cardinality(S) -> S] : \A a, b \in 1..Cardinality(S) : a # b => f[a] # f[b]
JP(e) == [present |-> e.present, wild |-> e.wild, typs |-> ToSeq(e.typs), def |-> e.def, doc |-> e.doc]
JI(x) == [raises |-> x.raises, wild |-> x.wild, doc |-> x.doc, params |-> [k \in 1..Len(x.params) |-> JP(x.params[k])], ret |-> JP(x.ret)]
Dump == pc = "done" =>
          PrintT(ToJson([cfg |-> [style |-> cfg.style, edd |-> cfg.edd, et |-> cfg.et, keep |-> keep], lines |-> lines,
                         i |-> i,
                         exp |-> JI(Norm(cfg, i)), asb |-> JI(out), devs |-> ToSeq(fired)]))
=====================================================================================
