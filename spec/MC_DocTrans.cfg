SPECIFICATION Spec
CONSTANTS
  MaxDefs = 2
  Enabled = {}
  Shard = 0
  NShards = 1
INVARIANT SameProgram
INVARIANT OthersUntouched
INVARIANT AtomicOnError
INVARIANT SingleWrite
CHECK_DEADLOCK FALSE
