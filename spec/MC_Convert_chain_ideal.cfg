\* C03 on the ideal rules: every chain of <= MaxLen conversions preserves the core (exhaustive)
SPECIFICATION Spec
CONSTANTS
  Mode = "chain"
  MaxLen = 5
  MaxParams = 2
  Enabled = {}
  FixFmts = {}
  Shard = 0
  NShards = 1
INVARIANT PreservedIdeal
INVARIANT Commute
CHECK_DEADLOCK FALSE
