---------------------------------- MODULE Convert ----------------------------------
(* The conversion machine (C03 chains, C08 fixpoints).

   State: `init` the interface the behaviour started from, `cur` the current abstract interface (or Top once a
   listed deviation has fired -- from then on the model makes no prediction), `hist` the formats visited.
   Hop(f) = emit `cur` in format f, render, re-read, parse (one round trip, as in Formats / Docstring).

   Mode "chain" (C03): every sequence of 1..MaxLen hops over {class, pydantic, function, argparse, docstring};
                       Preserved == the interface's core (names, order, types, defaults) never changes.
   Mode "fix"   (C08): the same format repeated 2..MaxLen times over the whole modelled domain;
                       Fix == after the first round, a round changes nothing.                                  *)
EXTENDS CddTypes, TLC, Json

CONSTANTS Mode, MaxLen, MaxParams, Enabled, Shard, NShards, FixFmts

F == INSTANCE FormatRules
D == INSTANCE DocRules
NoRet == F!NoRet

\* "docstring_keep": the ReST docstring read back with the library's own defaults -- the sentence `Defaults to ..` stays in the description
\* (hop "docstring" strips it again); names, types and defaults must come back all the same
ChainFmts == <<"class", "pydantic", "function", "argparse", "docstring", "docstring_keep">>
\* the fixed configuration each format is used with inside a chain: defaults live in code for the code formats,
\* a docstring has nowhere else to carry them
CfgOf(f) == IF f \in {"docstring", "docstring_keep"} THEN [style |-> "rest", edd |-> TRUE, et |-> TRUE]
            ELSE IF f = "docstring_google" THEN [style |-> "google", edd |-> TRUE, et |-> TRUE]
            ELSE IF f = "docstring_numpydoc" THEN [style |-> "numpydoc", edd |-> TRUE, et |-> TRUE]
            ELSE [fmt |-> f, style |-> "rest", edd |-> FALSE, ann |-> TRUE, kwonly |-> TRUE]

\* ---- domains -------------------------------------------------------------------------------------
CommonTyps == {"int", "float", "str", "bool", "Opt_int", "Opt_float", "Opt_str", "Opt_bool", "Lit"}
CommonParams == {p \in ParamsOver(CommonTyps, Defs \ {"code"}, {"plain"}) : p.def # "absent"}   \* every parameter has a default
\* C08's domain is hostile on purpose: untyped entries, descriptions containing the type-hint trigger words
TrigDocs == {"trig_number", "trig_whether", "trig_listof", "trig_or", "trig_default", "doc_colon", "doc_paren", "doc_question", "multi", "ellipsis",
             "comma_default"}     \* "the x, defaults to 5": the default clause hangs on a comma, in closing position
\* ... and type/default MISMATCHES that ordinary, if sloppy, Python is full of (`x: str = None`, `n: int = None`): round one may
\* normalise them (Optional wrapping), round two must not move again
Mismatched == [typ : {"str", "int", "bool"}, def : {"None"}, doc : {"plain"}]
FixParams == ParamsOver(Typs, Defs \ {"code"}, {"plain", "dot"}) \cup ParamsOver({"absent", "int", "str", "Dotted"}, {"absent", "None", "int_pos", "str"}, TrigDocs)
             \cup Mismatched
Dom == IF Mode = "chain" THEN CommonParams ELSE FixParams
SmallDom == IF Mode = "chain" THEN {p \in CommonParams : p.typ \in {"int", "Opt_str", "Lit"}}
            ELSE ParamsOver({"int", "str", "Opt_int"}, {"absent", "None", "int_pos", "str"}, {"plain"})
ParamSeqs == {<<p>> : p \in Dom} \cup (IF MaxParams >= 2 THEN {<<p, r>> : p \in Dom, r \in SmallDom} ELSE {})
\* (a return entry has no signature to carry a default: the data formats write it into the prose on emit and cut it out again on parse)
Rets == IF Mode = "chain" THEN {NoRet} ELSE {NoRet, [typ |-> "int", def |-> "absent", doc |-> "plain"], [typ |-> "int", def |-> "absent", doc |-> "comma_default"]}

\* ---- one round trip on the abstract interface ------------------------------------------------------
Top == [doc |-> "TOP", params |-> <<>>, ret |-> NoRet]
DocFmts == {"docstring", "docstring_keep", "docstring_google", "docstring_numpydoc"}
\* json_schema and the SQLAlchemy variants have their own modules (JsonSchema.tla, Sql.tla); inside the conversion machine
\* their round trip is the identity on their own domain (what C05/C06 demand), plus Sql's EnsurePK on the first round
DataFmts == {"json_schema", "sqlalchemy", "sqlalchemy_table"}
IdNorm(x) == [raises |-> "no", wild |-> FALSE, doc |-> x.doc,
              params |-> [k \in 1..Len(x.params) |-> [present |-> TRUE, wild |-> FALSE, typs |-> {x.params[k].typ},
                                                       def |-> x.params[k].def, doc |-> x.params[k].doc]],
              ret |-> [present |-> FALSE, wild |-> FALSE, typs |-> {}, def |-> "absent", doc |-> "absent"]]
AB(f, x) == IF f \in DocFmts THEN D!AsBuilt(Enabled, CfgOf(f), x)
            ELSE IF f \in DataFmts THEN [out |-> IdNorm(x), fired |-> {}]
            ELSE F!AsBuilt(Enabled, CfgOf(f), x)
Nm(f, x) == IF f \in DocFmts THEN D!Norm(CfgOf(f), x) ELSE IF f \in DataFmts THEN IdNorm(x) ELSE F!Norm(CfgOf(f), x)
\* the domain on which a format is quantified in C08
JsonTyps == {"int", "float", "str", "bool", "dict", "Opt_int", "Opt_float", "Opt_str", "Opt_bool", "Opt_dict", "Lit"}
InFixDomain(f, x) ==
  CASE f = "json_schema" -> \A k \in 1..Len(x.params) : x.params[k].typ \in JsonTyps /\ x.params[k].doc \in {"plain", "dot", "ellipsis", "comma_default"}
    [] f \in {"sqlalchemy", "sqlalchemy_table"} ->
         \A k \in 1..Len(x.params) : x.params[k].typ \in JsonTyps /\ x.params[k].doc \in {"plain", "dot", "ellipsis", "comma_default"}
                                       /\ (IsOpt(x.params[k].typ) => x.params[k].def \in {"absent", "None"})
    [] f \in {"docstring_google", "docstring_numpydoc"} -> SigLegal(x.params) /\ \A k \in 1..Len(x.params) : x.params[k].doc \in {"plain", "dot"}
    [] OTHER -> TRUE
\* the normed interface back as an interface (typed entries: the acceptable set is a singleton)
One(S) == CHOOSE t \in S : TRUE
BackP(e) == [typ |-> One(e.typs), def |-> e.def, doc |-> e.doc]
Back(n) == [doc |-> n.doc, params |-> [k \in 1..Len(n.params) |-> BackP(n.params[k])],
            ret |-> IF n.ret.present THEN BackP(n.ret) ELSE NoRet]
\* C08's own named deviations: (format, interface shape) on which a later round changes the interface again
SomeP(x, P(_)) == \E k \in 1..Len(x.params) : P(x.params[k])
FixFired(f, x) ==
  {d \in Enabled :
     \/ (d = "fix_class_untyped_nodefault_gains_optional_any" /\ f \in {"class", "pydantic"}
          /\ SomeP(x, LAMBDA p : p.typ = "absent" /\ p.def = "absent"))      \* round 1 adds `= None`, round 2 adds Optional[Any]
     \/ (d = "fix_function_neg_default_ast_reemit_raises" /\ f = "function"
          /\ SomeP(x, LAMBDA p : p.typ = "Union_int_str" /\ p.def = "int_neg"))  \* round 1 returns an AST default, round 2 cannot emit it
     \/ (d = "fix_argparse_dict_decays_to_str" /\ f = "argparse"
          /\ SomeP(x, LAMBDA p : p.typ = "dict" /\ p.def = "absent"))         \* dict -> Optional[dict] = None -> Optional[str]
     \* (repaired, 867cf18: Google/NumPy round 1 forced a default on the return entry, round 2 then appended "." to its description)
     \/ (d = "fix_str_default_with_dot_drifts" /\ f \in DocFmts /\ SomeP(x, LAMBDA p : p.def = "str_dot" /\ p.typ = "absent"))   \* cut at the first full stop, again on every round
     \/ (d = "fix_sqlalchemy_doc_whitespace_grows" /\ f = "sqlalchemy")      \* every round indents the class description once more
     \/ (d = "fix_numpydoc_untyped_unstable" /\ f = "docstring_numpydoc" /\ SomeP(x, LAMBDA p : p.typ = "absent"))}    \* (repaired)
Fired(f, x) == IF x = Top THEN {} ELSE AB(f, x).fired \cup (IF Mode = "fix" THEN FixFired(f, x) ELSE {})
RT(f, x) == IF x = Top \/ Fired(f, x) # {} THEN Top ELSE Back(Nm(f, x))

VARIABLES init, cur, hist, fired
vars == <<init, cur, hist, fired>>

Fmts == IF Mode = "chain" THEN {ChainFmts[k] : k \in 1..Len(ChainFmts)} ELSE FixFmts
FmtSeq == IF Mode = "chain" THEN ChainFmts
          ELSE <<"class", "pydantic", "function", "argparse", "docstring", "json_schema", "sqlalchemy", "sqlalchemy_table",
                 "docstring_google", "docstring_numpydoc">>

Init == /\ \E ps \in ParamSeqs, r \in Rets : init = [doc |-> "one", params |-> ps, ret |-> r]
        /\ cur = init /\ hist = <<>> /\ fired = {}

Hop(f) == /\ Len(hist) < MaxLen
          /\ (Mode = "fix" => (IF hist = <<>> THEN InFixDomain(f, init) ELSE hist[1] = f))
          /\ (hist = <<>> => \E k \in 1..Len(FmtSeq) : FmtSeq[k] = f /\ k % NShards = Shard)   \* shard by first format
          /\ cur' = RT(f, cur) /\ fired' = fired \cup Fired(f, cur)
          /\ hist' = Append(hist, f) /\ UNCHANGED init

Next == \E f \in Fmts : Hop(f)
Spec == Init /\ [][Next]_vars

\* ---- properties --------------------------------------------------------------------------------------
Core(x) == [k \in 1..Len(x.params) |-> [typ |-> x.params[k].typ, def |-> x.params[k].def]]
\* C03 (ideal rules: Enabled = {}): no chain changes the core
Preserved == cur # Top => Core(cur) = Core(init)
PreservedIdeal == cur # Top /\ Core(cur) = Core(init)
\* C08: once round-tripped, a further round of the same format changes nothing
Fix == [][(Mode = "fix" /\ Len(hist) >= 1 /\ cur # Top /\ cur' # Top) => cur' = cur]_vars
\* conversions commute: the result depends on the start only (follows from Preserved; checked as such)
Commute == cur # Top => cur.params = [k \in 1..Len(cur.params) |->
                                        [typ |-> init.params[k].typ, def |-> init.params[k].def, doc |-> cur.params[k].doc]]

RECURSIVE SetToSeq(_)
SetToSeq(S) == IF S = {} THEN <<>> ELSE LET x == CHOOSE x \in S : TRUE IN <<x>> \o SetToSeq(S \ {x})
\* a behaviour is dumped when it cannot be extended in its mode (chains: every length 2..MaxLen is itself a case)
Dump == (Len(hist) >= 2 \/ (Mode = "chain" /\ Len(hist) >= 1 /\ MaxLen = 1)) =>
          PrintT(ToJson([hist |-> hist, i |-> init, top |-> (cur = Top), cur |-> cur, devs |-> SetToSeq(fired)]))
=====================================================================================
