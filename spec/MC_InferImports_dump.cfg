SPECIFICATION Spec
CONSTANTS
  AsBuilt = TRUE
  MaxOcc = 2
  Shard = 0
  NShards = 1
INVARIANT Dump
CHECK_DEADLOCK FALSE
