\* random behaviours beyond the exhaustive bound (run with -simulate)
SPECIFICATION SimSpec
CONSTANTS
  MaxTok = 8
  Shard = 0
  NShards = 1
INVARIANT Conservation
INVARIANT Lossless
INVARIANT NoEmptyChunk
INVARIANT NodesLossless
INVARIANT Tiling
CHECK_DEADLOCK FALSE
