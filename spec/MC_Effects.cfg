SPECIFICATION Spec
INVARIANT NeverBad
CHECK_DEADLOCK FALSE
