SPECIFICATION Spec
CONSTANTS
  MaxRuns = 3
  Enabled = {}
  Shard = 0
  NShards = 1
INVARIANT AllEquivalent
INVARIANT TruthUnchanged
INVARIANT AroundUnchanged
PROPERTY SecondRunNoop
CHECK_DEADLOCK FALSE
