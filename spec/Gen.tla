------------------------------------ MODULE Gen ------------------------------------
(* C19: gen writes a valid module that exports exactly what it generated.

   fs: the output file is "absent" or "present" (with some earlier content id).  An input mapping has 1..3 entries
   (named E1..E3) of the parse kind.  Gen(opts):
     output present  =>  refused (an error), fs unchanged                      -- NoClobber
     otherwise       =>  the written module has Symbols = {tpl(n)}, All = Symbols, it compiles, every symbol parses back
                         to the interface of its entry, and with import inference on every used typing/SQLAlchemy name
                         is imported.
   The (parse kind, emit kind) matrix is explicit: Outcome(opts) gives the as-built result of a cell -- "ok", or the
   named deviation with its exact outcome ("raises:<Type>", "all_ne_symbols", "syntax_error", "wild").             *)
EXTENDS Naturals, Sequences, FiniteSets, TLC, Json

CONSTANTS Enabled, Shard, NShards

ParseKinds == {"argparse", "class", "function", "json_schema", "pydantic", "sqlalchemy", "sqlalchemy_table", "sqlalchemy_hybrid", "infer"}
EmitKinds == {"argparse", "class", "function", "json_schema", "pydantic", "sqlalchemy", "sqlalchemy_table", "sqlalchemy_hybrid"}
SqlEmit == {"sqlalchemy", "sqlalchemy_table", "sqlalchemy_hybrid"}
Tpls == {"suffix", "prefix"}                     \* "{name}Cfg" / "Gen{name}"
\* mixed: under `--parse infer` the input module holds entries of DIFFERENT kinds (E1 a plain class, E2 a SQLAlchemy class,
\* E3 a plain class again): each must be read with the parser of its own kind
Opts == {o \in [parse : ParseKinds, emit : EmitKinds, tpl : Tpls, infer_imports : BOOLEAN, prepend : BOOLEAN,
                imports_from_file : BOOLEAN, out_present : BOOLEAN, entries : 1..3, mixed : BOOLEAN] :
           o.mixed => (o.parse = "infer" /\ o.entries >= 2)}

Entries(o) == {"E1", "E2", "E3"} \cap (IF o.entries = 1 THEN {"E1"} ELSE IF o.entries = 2 THEN {"E1", "E2"} ELSE {"E1", "E2", "E3"})
Named(o) == {<<o.tpl, e>> : e \in Entries(o)}

\* ---- the as-built matrix: named deviations with their exact outcome --------------------------------------------
\* (the row `--parse argparse` -> ModuleNotFoundError was repaired, 57573db + 33c13fd: those cells now fall through to their emit kind)
Dev(o) ==
  CASE o.parse = "sqlalchemy_table"  -> <<"gen_parse_sqlalchemy_table_attribute_error", "raises:AttributeError">>
    [] o.parse = "sqlalchemy_hybrid" -> <<"gen_parse_sqlalchemy_hybrid_assertion_error", "raises:AssertionError">>
    [] o.parse = "json_schema"       -> <<"gen_parse_json_schema_unusable", "wild">>
    [] o.emit = "function"           -> <<"gen_emit_function_type_error", "raises:TypeError">>
    [] o.emit = "pydantic"           -> <<"gen_emit_pydantic_key_error", "raises:KeyError">>
    [] o.emit = "json_schema" /\ o.parse = "sqlalchemy" -> <<"gen_sqlalchemy_to_json_schema_type_error", "wild">>
    [] o.emit = "json_schema"        -> <<"gen_emit_json_schema_not_a_module", "wild">>
    [] o.emit \in SqlEmit            -> <<"gen_sql_emit_symbol_not_templated", "all_ne_symbols">>
    [] OTHER                         -> <<"none", "ok">>
Outcome(o) == IF o.out_present THEN "refused"
              ELSE IF Dev(o)[1] \in Enabled THEN Dev(o)[2] ELSE "ok"
Fired(o) == IF ~o.out_present /\ Dev(o)[1] \in Enabled THEN {Dev(o)[1]} ELSE {}

VARIABLES o, fs, result
vars == <<o, fs, result>>
SE == INSTANCE SequencesExt
OptSeq == SE!SetToSeq(Opts)
\* (the sequence is handed over as an ARGUMENT: TLC evaluates an argument once, a definition indexed inside a set constructor every time)
ShardOf(seq) == {seq[k] : k \in {j \in 1..Len(seq) : j % NShards = Shard}}
Init == /\ o \in ShardOf(OptSeq)
        /\ fs = (IF o.out_present THEN "old" ELSE "absent") /\ result = "pending"
Run == /\ result = "pending"
       /\ result' = Outcome(o)
       /\ fs' = IF o.out_present THEN fs ELSE IF Outcome(o) \in {"ok", "all_ne_symbols", "syntax_error", "wild"} THEN "written" ELSE fs
       /\ UNCHANGED o
Next == Run
Spec == Init /\ [][Next]_vars

NoClobber == (result # "pending" /\ o.out_present) => (result = "refused" /\ fs = "old")
Exports == (result # "pending" /\ ~o.out_present) => result = "ok"
ExportsOrDeviation == (result # "pending" /\ ~o.out_present) => (result = "ok" \/ Fired(o) # {})
RECURSIVE SetToSeq(_)
SetToSeq(S) == IF S = {} THEN <<>> ELSE LET x == CHOOSE x \in S : TRUE IN <<x>> \o SetToSeq(S \ {x})
Dump == result # "pending" => PrintT(ToJson([o |-> o, outcome |-> result, devs |-> SetToSeq(Fired(o))]))
=====================================================================================
