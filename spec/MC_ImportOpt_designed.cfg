\* with the level in the key every law holds
SPECIFICATION Spec
CONSTANTS
  AsBuilt = FALSE
  MaxLen = 2
  Shard = 0
  NShards = 1
INVARIANT Coverage
INVARIANT Sound
INVARIANT NoDup
INVARIANT Idempotent
INVARIANT Sorted
CHECK_DEADLOCK FALSE
