\* a set of candidate phrases: the first phrase found depends on the set's iteration order -> TLC must find the counterexample
SPECIFICATION Spec
CONSTANTS
  MaxSig = 1
  MaxCalls = 1
  OrderedMerge = TRUE
  ReadsLeak = FALSE
  OrderedScan = FALSE
  TableCalls = FALSE
  Registers = FALSE
  Aliases = FALSE
INVARIANT Functional
CHECK_DEADLOCK FALSE
