------------------------------------ MODULE Exec ------------------------------------
(* C04: emitted code runs and exposes exactly the described interface.

   Emit_f(i) is modelled as the abstract artefact the emitter writes (class body entries, signature entries,
   add_argument keyword records); Observe_f(artefact) is what CPython shows when that artefact is executed
   (class attributes + __annotations__, inspect.signature, ArgumentParser actions and parse_args);
   Described_f(i) is the same observation computed from the interface alone.  TLC checks
   Observe_f(Emit_f(i)) = Described_f(i) on the ideal rules; the harness executes the REAL emission in a real
   interpreter and compares the real observation with gamma(Described).                                        *)
EXTENDS CddTypes, TLC, Json

CONSTANTS MaxParams, Enabled, Shard, NShards

Fmts == <<"class", "pydantic", "function", "argparse">>
Styles == {"rest", "google", "numpydoc"}
ExecTyps == Typs \ {"absent", "Dotted"}            \* resolvable from typing + builtins
\* described, without any prose, or described with a sentence that merely MENTIONS the word "defaults" (no `defaults to X` phrase)
ExecParams == ParamsOver(ExecTyps, Defs \ {"code"}, {"plain", "absent", "word_defaults"})
SmallParams == ParamsOver({"int", "Opt_str", "Lit"}, {"absent", "None", "int_pos", "str"}, {"plain"})
ParamSeqs == {<<p>> : p \in ExecParams} \cup (IF MaxParams >= 2 THEN {<<p, r>> : p \in ExecParams, r \in SmallParams} ELSE {})

\* ---- Emit: the abstract artefact -------------------------------------------------------------------------
\* class body entry: AnnAssign with or without value; function signature entry: every parameter gets a default
\* (None when the interface has none); argparse: add_argument keywords
ConvOf(t) == CASE Base(t) = "int" -> "int" [] Base(t) = "float" -> "float" [] Base(t) = "bool" -> "bool"
               [] Base(t) = "str" -> "str" [] Base(t) = "List_str" -> "str" [] Base(t) = "Lit" -> "none"
               [] Base(t) = "dict" -> "loads" [] OTHER -> "str"
EmitClassEntry(p) == [ann |-> p.typ, value |-> p.def]
EmitFnEntry(p, kwonly) == [ann |-> p.typ, value |-> IF p.def = "absent" THEN "None" ELSE p.def,
                           kind |-> IF kwonly THEN "KEYWORD_ONLY" ELSE "POSITIONAL_OR_KEYWORD"]
EmitArgEntry(p) == [type |-> ConvOf(p.typ), choices |-> Base(p.typ) = "Lit", append |-> Base(p.typ) = "List_str",
                    default |-> p.def, required |-> ~IsOpt(p.typ), help |-> p.doc]

\* ---- Observe: what CPython shows for such an artefact --------------------------------------------------------
ObsClass(e) == [ann |-> e.ann, hasvalue |-> e.value # "absent", value |-> e.value]
ObsFn(e) == [ann |-> e.ann, default |-> e.value, kind |-> e.kind]
\* argparse: an absent default is observed as None; required is what was passed
ObsArg(e) == [conv |-> e.type, choices |-> e.choices, append |-> e.append,
              default |-> IF e.default = "absent" THEN "None" ELSE e.default, required |-> e.required, help |-> e.help]

\* ---- Described: the same observation computed from the interface ----------------------------------------------
DescClass(p) == [ann |-> p.typ, hasvalue |-> p.def # "absent", value |-> p.def]
DescFn(p, kwonly) == [ann |-> p.typ, default |-> IF p.def = "absent" THEN "None" ELSE p.def,
                      kind |-> IF kwonly THEN "KEYWORD_ONLY" ELSE "POSITIONAL_OR_KEYWORD"]
\* the tool's convention (README): required <=> the type is not Optional; optional arguments yield their defaults
DescArg(p) == [conv |-> ConvOf(p.typ), choices |-> Base(p.typ) = "Lit", append |-> Base(p.typ) = "List_str",
               default |-> IF p.def = "absent" THEN "None" ELSE p.def, required |-> ~IsOpt(p.typ), help |-> p.doc]

Described(cfg, ps) == [k \in 1..Len(ps) |->
                         CASE cfg.fmt \in {"class", "pydantic"} -> DescClass(ps[k])
                           [] cfg.fmt = "function" -> DescFn(ps[k], cfg.kwonly)
                           [] cfg.fmt = "argparse" -> DescArg(ps[k])]
Observed(cfg, ps) == [k \in 1..Len(ps) |->
                         CASE cfg.fmt \in {"class", "pydantic"} -> ObsClass(EmitClassEntry(ps[k]))
                           [] cfg.fmt = "function" -> ObsFn(EmitFnEntry(ps[k], cfg.kwonly))
                           [] cfg.fmt = "argparse" -> ObsArg(EmitArgEntry(ps[k]))]

\* ---- named deviations (the exact observation of the as-built emission) ---------------------------------------
FiredP(en, cfg, p) ==
  {d \in en :
     \/ (d = "class_dict_no_default_emitted_as_empty_dict" /\ cfg.fmt \in {"class", "pydantic"} /\ p.typ = "dict" /\ p.def = "absent")
     \/ (d = "argparse_bool_no_default_not_required" /\ cfg.fmt = "argparse" /\ p.typ = "bool" /\ p.def = "absent")
     \/ (d = "argparse_type_collapsed" /\ cfg.fmt = "argparse" /\ p.typ \in {"Union_int_str", "Opt_dict"})}
Wild(en, cfg, p) == FiredP(en, cfg, p) # {}

\* ---- the body of the emitted definition: what makes it a definition CPython accepts -----------------------------------
\* a def/class statement needs at least one statement: the emitters always write the docstring expression (an empty one
\* when the interface carries no prose at all), then the entries / add_argument calls / the return statement
Body(c, idoc, qs) == <<"docstring">> \o (CASE c.fmt \in {"class", "pydantic"} -> [k \in 1..Len(qs) |-> "entry"]
                                          [] c.fmt = "argparse" -> [k \in 1..Len(qs) |-> "add_argument"] \o <<"return">>
                                          [] OTHER -> <<>>)

VARIABLES cfg, ps, pc, obs, idoc, body
vars == <<cfg, ps, pc, obs, idoc, body>>
\* edd = emit_default_doc: the default is ALSO written into the description -- it must not change what the program exposes
Cfgs == {c \in [fmt : {Fmts[k] : k \in 1..4}, style : Styles, kwonly : BOOLEAN, edd : BOOLEAN] : c.fmt # "function" => c.kwonly}
RECURSIVE SetToSeq(_)
SetToSeq(S) == IF S = {} THEN <<>> ELSE LET x == CHOOSE x \in S : TRUE IN <<x>> \o SetToSeq(S \ {x})
CfgSeq == SetToSeq(Cfgs)
Init == /\ cfg \in {CfgSeq[k] : k \in {j \in 1..Len(CfgSeq) : j % NShards = Shard}}
        /\ ps \in ParamSeqs /\ pc = "emit" /\ obs = <<>> /\ idoc \in {"one", "absent"} /\ body = <<>>
EmitAndRun == pc = "emit" /\ obs' = Observed(cfg, ps) /\ body' = Body(cfg, idoc, ps) /\ pc' = "done" /\ UNCHANGED <<cfg, ps, idoc>>
Next == EmitAndRun
Spec == Init /\ [][Next]_vars

Exposes == pc = "done" => obs = Described(cfg, ps)
Compiles == pc = "done" => body # <<>>
Dump == pc = "done" =>
          PrintT(ToJson([cfg |-> cfg, ps |-> ps, idoc |-> idoc, body |-> body, desc |-> Described(cfg, ps),
                         wild |-> [k \in 1..Len(ps) |-> Wild(Enabled, cfg, ps[k])],
                         devs |-> SetToSeq(UNION {FiredP(Enabled, cfg, ps[k]) : k \in 1..Len(ps)})]))
=====================================================================================
