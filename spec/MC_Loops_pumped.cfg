\* pumped inputs: a (possibly truncated) token, one token repeated PumpK times, nothing or a word; Linear must hold; dumped for the replay
SPECIFICATION Spec
CONSTANTS
  Mode = "pumped"
  MaxLen = 0
  MaxTok = 0
  PumpK = 6
  Advance = TRUE
  Shard = 0
  NShards = 1
PROPERTY Progress
INVARIANT Linear
INVARIANT Dump
CHECK_DEADLOCK FALSE
