---------------------------------- MODULE TraceLoops ----------------------------------
(* (V) Batched validation of loop observations recorded from the real code by the sys.monitoring
   loop monitor (harness/loopmon.py).  One record per monitored public call:
       [tid, n, iters, done]
   n = size of the call's input (characters), iters = the largest number of times any single loop
   back-edge was taken within one activation during the call, done = the call returned or raised by
   itself (FALSE = it had to be aborted by the monitor or the watchdog).
   A call is accepted iff it is a behaviour of a loop with a linear variant:
       done /\ iters <= A + B * n          (Loops!Linear with the constants the harness calibrated)   *)
EXTENDS Naturals, Sequences, TLC, Json, IOUtils

CONSTANTS A, B
Calls == JsonDeserialize(IOEnv.TRACE_FILE)
N == Len(Calls)

VARIABLES t, ok
vars == <<t, ok>>
Init == t \in 1..N /\ ok = "pending"
Check == /\ ok = "pending"
         /\ ok' = IF Calls[t].done /\ Calls[t].iters <= A + B * Calls[t].n THEN "accepted" ELSE "rejected"
         /\ UNCHANGED t
Spec == Init /\ [][Check]_vars
Report == ok = "rejected" => PrintT(ToJson([reject |-> Calls[t].tid, iters |-> Calls[t].iters, n |-> Calls[t].n]))
=====================================================================================
