---------------------------------- MODULE CddTypes ----------------------------------
(* The shared abstract domain of interface descriptions (the intermediate representation, IR).

   An interface is  [doc, params : Seq(Param), ret]  with
       Param == [typ, def, doc]      (names are positional: the harness gives the k-th parameter a real identifier)
       ret   == "absent" | [typ, def, doc]
   All values are symbolic; the harness concretises them with seeded pools of representatives (gamma):
       typ  "int" -> "int", "Opt_int" -> "Optional[int]", "Lit" -> "Literal['b', 'a', 'c']", "Dotted" -> "np.ndarray", ...
       def  "None" -> the in-IR marker ```(None)```, "int_neg" -> -3, "str" -> "mnist" (a Literal member for Lit), ...
       doc  "plain" -> "the <name>", "dot" -> "the <name>.", "absent" -> no description key                        *)
EXTENDS Naturals, Sequences, FiniteSets

Scalars == {"int", "float", "str", "bool"}
OptOf(t) == "Opt_" \o t
Typs == {"absent", "int", "float", "str", "bool", "Opt_int", "Opt_float", "Opt_str", "Opt_bool",
         "Lit", "List_str", "Union_int_str", "Dotted", "dict", "Opt_dict"}
IsOpt(t) == t \in {"Opt_int", "Opt_float", "Opt_str", "Opt_bool", "Opt_dict", "Opt_Lit", "Opt_Lit2"}
Base(t) == CASE t = "Opt_int" -> "int" [] t = "Opt_float" -> "float" [] t = "Opt_str" -> "str"
             [] t = "Opt_bool" -> "bool" [] t = "Opt_dict" -> "dict" [] t = "Opt_Lit" -> "Lit" [] t = "Opt_Lit2" -> "Lit2" [] OTHER -> t
\* "Lit" is a Literal whose members are alphabetic words, "Lit2" one whose members contain digits / underscores,
\* "LitP" one whose members contain characters that are special in a regular expression (hyphen, blank, full stop)

\* "str_odd": a string with spaces / punctuation ("two words", "~/a b/c.txt"); "float_exp": a float whose repr uses an exponent (1e-07);
\* "int_big": an int beyond 32 bits
Defs == {"absent", "None", "int_pos", "int_zero", "int_neg", "float_pos", "float_neg", "bool_T", "bool_F",
         "str", "str_empty", "code", "str_odd", "float_exp", "int_big", "str_dot", "str_kw"}
\* "str_kw": a string whose VALUE is one of the words the prose type heuristics react to ("path", "list", "true")
\* "str_dot": a string that contains a full stop ("~/data/x.txt", "v1.2")
IntDefs == {"int_pos", "int_zero", "int_neg", "int_big"}
FloatDefs == {"float_pos", "float_neg", "float_exp"}
BoolDefs == {"bool_T", "bool_F"}
StrDefs == {"str", "str_empty", "str_odd", "str_dot", "str_kw"}

\* the Python type of a default value, as a type string
TypOfDef(d) == CASE d \in IntDefs -> "int" [] d \in FloatDefs -> "float" [] d \in BoolDefs -> "bool"
                 [] d \in StrDefs -> "str" [] OTHER -> "absent"

\* which defaults make sense for which type
Compat(t, d) ==
  \/ d = "absent"
  \/ d = "None" /\ (IsOpt(t) \/ t = "absent")
  \/ d \in IntDefs /\ Base(t) \in {"int", "absent", "Union_int_str"}
  \/ d \in FloatDefs /\ Base(t) \in {"float", "absent"}
  \/ d \in BoolDefs /\ Base(t) \in {"bool", "absent"}
  \/ d = "str" /\ Base(t) \in {"str", "absent", "Lit", "Lit2", "LitP"}
  \/ d \in {"str_empty", "str_odd", "str_dot", "str_kw"} /\ Base(t) \in {"str", "absent"}
  \/ d = "code" /\ Base(t) \in {"int", "absent", "List_str", "Dotted", "dict"}

Docs == {"absent", "plain", "dot"}

ParamsOver(T, D, C) == {p \in [typ : T, def : D, doc : C] : Compat(p.typ, p.def)}
AllParams == ParamsOver(Typs, Defs, Docs)

\* sequences of length 0..n over a set
SeqsUpTo(S, n) == UNION {[1..k -> S] : k \in 0..n}

HasDefault(p) == p.def # "absent"
\* defaults form a suffix of the parameter list (legal as a Python signature)
SigLegal(ps) == \A k \in 1..Len(ps) : HasDefault(ps[k]) => \A j \in k..Len(ps) : HasDefault(ps[j])
=====================================================================================
