---------------------------------- MODULE DocRules ----------------------------------
(* The docstring round trip as pure operators (no state): Norm = what C01 demands of the re-parsed interface,
   AsBuilt = Norm with the named deviations applied.  Used by Docstring.tla (C01) and Convert.tla (C03, C08). *)
EXTENDS CddTypes

NoRet == [typ |-> "none", def |-> "absent", doc |-> "absent"]

\* ---- what the property demands (ideal) --------------------------------------------------------------
Carried(cfg, p) == IF cfg.edd THEN p.def ELSE "absent"
AccTyps(cfg, p) ==
  IF cfg.et
  THEN (IF p.typ = "absent" THEN {"absent", TypOfDef(Carried(cfg, p))} ELSE {p.typ})
  ELSE {"absent", p.typ, TypOfDef(Carried(cfg, p))}
NormP(cfg, p) == [present |-> TRUE, wild |-> FALSE, typs |-> AccTyps(cfg, p), def |-> Carried(cfg, p), doc |-> p.doc]
Gone == [present |-> FALSE, wild |-> FALSE, typs |-> {}, def |-> "absent", doc |-> "absent"]
\* a return entry that is neither described nor typed in the docstring has nothing to be written with: it is legitimately absent
\* (Google writes every known type; NumPy every known RETURN type -- the type line is all a return entry has for a name line)
RetTypWritten(cfg, r) == r.typ # "absent" /\ (cfg.et \/ cfg.style \in {"google", "numpydoc"})
RetWritten(cfg, r) == r.doc # "absent" \/ RetTypWritten(cfg, r) \/ Carried(cfg, r) # "absent"
Norm(cfg, i) == [raises |-> "no", wild |-> FALSE, doc |-> i.doc,
                 params |-> [k \in 1..Len(i.params) |-> NormP(cfg, i.params[k])],
                 ret |-> IF i.ret = NoRet \/ ~RetWritten(cfg, i.ret) THEN Gone ELSE NormP(cfg, i.ret)]

\* ---- named deviations of the as-built code (exact wrong outcomes) ------------------------------------
\* Each has an abstract trigger and either the exact wrong outcome or (wild) "anything may come back for inputs of
\* this class".  known_findings.txt lists the open ones; Enabled is that list.
Devs == {                                  \* (repaired, 9021f5d: numpydoc with emit_types=False wrote a return section without its type line)
                                           \* (repaired, 2780ff2 + abc442b: a Google/NumPy docstring with a return entry but no parameters was unreadable)
         "code_default_type_dropped",      \* exact: an entry whose default is a code-quoted expression loses its WRITTEN type unless that type has brackets
                                           \*        (the parser distrusts a type next to an expression; before the repair the default itself was lost: wild)
         "str_default_with_dot_truncated", \* wild : a string default containing a full stop is cut at it ("~/data/x.txt" -> "~/data/x", ".txt" lands in the description)
                                           \* (repaired, 0fc255c: a None default came back as the string '(None)' -- the most frequent departure of all)
                                           \* (repaired, 2e64952: an empty-string default was written as nothing, dropped, and 'Defaults to' stayed in the description)
         "wrapped_default_tail_misread"}   \* wild : word wrap falls inside the tail `Defaults to <value>` of a long description: the default is lost or carries the line break
                                           \* (repaired, 381b4a0: Google read the type line `int:` of an undescribed return entry as its description)
                                           \* (repaired, 867cf18: Google/NumPy gave the return entry a zero/None default once any parameter had one)

\* (the parser was asked to keep the sentence `Defaults to ..` in the description: only Docstring.tla varies it)
KeepOf(cfg) == IF "keep" \in DOMAIN cfg THEN cfg.keep ELSE FALSE
\* the type is written into the docstring (Google always writes it)
Written(cfg, p) == p.typ # "absent" /\ (cfg.et \/ cfg.style = "google")
ParsedDefault(cfg, p) == cfg.edd /\ p.def # "absent"
ZeroOf(t) == CASE t = "int" -> "int_zero" [] t = "float" -> "zero_float" [] t = "str" -> "str_empty"
               [] t = "bool" -> "bool_F" [] OTHER -> "None"

Bracketed(t) == t \in {"List_str", "Union_int_str", "Lit", "Lit2", "LitP"} \/ IsOpt(t)
CodeDrops(en, cfg, p) == "code_default_type_dropped" \in en /\ cfg.edd /\ p.def = "code" /\ Written(cfg, p) /\ ~Bracketed(p.typ)
\* `after` = some earlier parameter carries a parsed default (Google/NumPy then force a default on every later entry)
AsBuiltPk(en, cfg, p, after) ==
  LET e0 == NormP(cfg, p)
  IN IF CodeDrops(en, cfg, p) THEN [e0 EXCEPT !.typs = {"absent"}] ELSE e0
AsBuiltP(en, cfg, p) == AsBuiltPk(en, cfg, p, FALSE)
FiredP(en, cfg, p) == {d \in en : (d = "code_default_type_dropped" /\ CodeDrops(en, cfg, p))}

AsBuilt(en, cfg, i) ==
  LET ents == {i.params[k] : k \in 1..Len(i.params)} \cup (IF i.ret = NoRet THEN {} ELSE {i.ret})
      wildNp == FALSE
      wildWrap == "wrapped_default_tail_misread" \in en /\ cfg.edd
                  /\ \E k \in 1..Len(i.params) : /\ i.params[k].doc = "long" /\ i.params[k].def # "absent"
                                                  /\ (cfg.style = "numpydoc" \/ (cfg.style = "rest" /\ ~KeepOf(cfg) /\ i.params[k].def = "str_odd"))
      wildCode == FALSE
      \* (a QUOTED default -- any typed string -- is read to its closing quote since the repair; an untyped entry's default is written
      \* bare, where a full stop cannot be told from the end of the sentence)
      wildDot == "str_default_with_dot_truncated" \in en /\ cfg.edd /\ \E p \in ents : p.def = "str_dot" /\ p.typ = "absent"
      ret0 == IF i.ret = NoRet THEN Gone ELSE AsBuiltP(en, cfg, i.ret)
      ret1 == IF ~(i.ret = NoRet) /\ ~RetWritten(cfg, i.ret) THEN Gone
              ELSE ret0
      fired == UNION {FiredP(en, cfg, p) : p \in ents}
               \cup (IF wildDot THEN {"str_default_with_dot_truncated"} ELSE {})
               \cup (IF wildWrap THEN {"wrapped_default_tail_misread"} ELSE {})
  IN [out |-> [raises |-> "no", wild |-> wildNp \/ wildCode \/ wildDot \/ wildWrap, doc |-> i.doc,
               params |-> [k \in 1..Len(i.params) |->
                             AsBuiltPk(en, cfg, i.params[k], \E j \in 1..(k - 1) : ParsedDefault(cfg, i.params[j]))],
               ret |-> ret1],
      fired |-> fired]

=====================================================================================
