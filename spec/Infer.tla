----------------------------------- MODULE Infer -----------------------------------
(* infer (cdd/shared/parse/utils/parser_utils.py): which parser reads a given piece of input -- the decision `gen --parse infer`,
   `exmod` and the test-suite's mocks rely on.  None of the listed properties states it (C19 only sees its consequences).

   An input is classified by SHAPE (what the decision procedure can observe):
     fn_argparse       def f(argument_parser, ..)             fn_plain      any other def          fn_async     async def
     cls_Base          class X(Base)                          cls_attr_Base class X(db.Base)       cls_BaseModel class X(BaseModel)
     cls_plain         class X(object) / class X              cls_hybrid    class X(Base) holding `__table__ = Table(..)`
     assign_table      x = Table("x", metadata, Column..)     annassign_table  x: Table = Table("x", metadata, ..)
     assign_table2     x = Table("x", metadata)  (two arguments)   assign_table_attr  x = Table("x", db.metadata, Column..)
     assign_other      x = f(1)                               call_table    the bare Table(..) call
     module            an ast.Module                          text_doc      a str that is prose / a docstring
     text_def          a str starting with "def " / "class "  const_doc     an ast.Constant holding such prose
     dict_schema       a dict (a JSON-schema document)        py_function   a live Python function object
     py_class          a live Python class object
   Decide(s) is the decision as BUILT (a transcription of the if-chain); Designed(s) is what the eight documented parse kinds and the
   emitters' own output shapes demand.  Properties (on Designed; TLC must find them violated on Decide where recorded):
     Total        every shape gets the name of a parser -- never None, never an exception
     EmitInverse  the shape each emitter produces is sent back to the parser of that same kind                                *)
EXTENDS Naturals, Sequences, FiniteSets, TLC, Json

CONSTANTS AsBuilt

Shapes == {"fn_argparse", "fn_plain", "fn_async", "cls_Base", "cls_attr_Base", "cls_BaseModel", "cls_plain", "cls_hybrid",
           "assign_table", "annassign_table", "assign_table2", "assign_table_attr", "assign_other", "call_table", "module",
           "text_doc", "text_def", "const_doc", "dict_schema", "py_function", "py_class"}
Parsers == {"argparse_ast", "function", "class_", "pydantic", "sqlalchemy", "sqlalchemy_hybrid", "sqlalchemy_table", "json_schema", "docstring"}

\* ---- as built: the if-chain, branch by branch ----------------------------------------------------------------------------------
Decide(s) ==
  CASE s = "fn_argparse" -> "argparse_ast"
    [] s = "fn_plain" -> "function"
    [] s = "fn_async" -> "NotImplementedError"            \* AsyncFunctionDef is not among the supported node classes
    [] s \in {"cls_Base", "cls_hybrid"} -> "sqlalchemy"  \* a base NAMED Base; what the body holds is not looked at
    [] s \in {"cls_attr_Base", "cls_BaseModel", "cls_plain"} -> "class_"      \* only bases that are plain names are compared with "Base"
    [] s \in {"assign_table", "annassign_table", "call_table"} -> "sqlalchemy_table"
    [] s = "assign_table2" -> "None"                     \* needs MORE than two arguments
    [] s = "assign_table_attr" -> "AttributeError"       \* node.args[1].id on an ast.Attribute
    [] s = "assign_other" -> "None"
    [] s = "module" -> "NotImplementedError"             \* accepted by the isinstance test, handled by no branch
    [] s \in {"text_doc", "const_doc"} -> "docstring"
    [] s = "text_def" -> "NotImplementedError"
    [] s = "dict_schema" -> "NotImplementedError"
    [] s = "py_function" -> "function"                   \* getsource, parse, decide again
    [] s = "py_class" -> "class_"

\* ---- as designed --------------------------------------------------------------------------------------------------------------------
Designed(s) ==
  CASE s = "fn_argparse" -> "argparse_ast"
    [] s \in {"fn_plain", "fn_async", "py_function", "text_def"} -> "function"
    [] s \in {"cls_Base", "cls_attr_Base"} -> "sqlalchemy"
    [] s = "cls_hybrid" -> "sqlalchemy_hybrid"
    [] s = "cls_BaseModel" -> "pydantic"
    [] s \in {"cls_plain", "py_class"} -> "class_"
    [] s \in {"assign_table", "annassign_table", "call_table", "assign_table2", "assign_table_attr"} -> "sqlalchemy_table"
    [] s = "assign_other" -> "class_"                    \* (any total answer: the designed procedure never returns None)
    [] s = "module" -> "class_"
    [] s \in {"text_doc", "const_doc"} -> "docstring"
    [] s = "dict_schema" -> "json_schema"
D(s) == IF AsBuilt THEN Decide(s) ELSE Designed(s)

\* the shape each emitter of the tool writes
EmitShape == [argparse |-> "fn_argparse", function |-> "fn_plain", class |-> "cls_plain", pydantic |-> "cls_BaseModel",
              sqlalchemy |-> "cls_Base", sqlalchemy_hybrid |-> "cls_hybrid", sqlalchemy_table |-> "assign_table",
              json_schema |-> "dict_schema", docstring |-> "text_doc"]
ParserOf == [argparse |-> "argparse_ast", function |-> "function", class |-> "class_", pydantic |-> "pydantic", sqlalchemy |-> "sqlalchemy",
             sqlalchemy_hybrid |-> "sqlalchemy_hybrid", sqlalchemy_table |-> "sqlalchemy_table", json_schema |-> "json_schema",
             docstring |-> "docstring"]
EmitKinds == DOMAIN EmitShape

VARIABLES shape, pc, answer
vars == <<shape, pc, answer>>
Init == shape \in Shapes /\ pc = "ask" /\ answer = "none"
Ask == pc = "ask" /\ answer' = D(shape) /\ pc' = "done" /\ UNCHANGED shape
Spec == Init /\ [][Ask]_vars

Total == pc = "done" => answer \in Parsers
EmitInverse == pc = "done" => \A k \in EmitKinds : EmitShape[k] = shape => answer = ParserOf[k]
Dump == pc = "done" => PrintT(ToJson([shape |-> shape, answer |-> answer]))
=====================================================================================
