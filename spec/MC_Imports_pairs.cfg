\* every ordered pair of public modules (exhaustive in the model)
SPECIFICATION Spec
CONSTANTS
  Mode = "pairs"
  Shard = 0
  NShards = 1
INVARIANT TypeOK
INVARIANT NoFailure
INVARIANT Dump
CHECK_DEADLOCK FALSE
