\* all sources of <= MaxTok tokens over the 19-token lexical alphabet (exhaustive)
SPECIFICATION Spec
CONSTANTS
  MaxTok = 3
  Shard = 0
  NShards = 1
INVARIANT Conservation
INVARIANT Lossless
INVARIANT NoEmptyChunk
INVARIANT NodesLossless
INVARIANT Tiling
CHECK_DEADLOCK FALSE
