SPECIFICATION Spec
CONSTANTS
  MaxParams = 2
  Enabled = {}
  Shard = 0
  NShards = 1
INVARIANT Exposes
INVARIANT Compiles
CHECK_DEADLOCK FALSE
