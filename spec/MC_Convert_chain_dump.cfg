\* C03 as built: chains dumped for the replay
SPECIFICATION Spec
CONSTANTS
  Mode = "chain"
  MaxLen = 3
  MaxParams = 1
  Enabled = {}
  FixFmts = {}
  Shard = 0
  NShards = 1
INVARIANT Preserved
INVARIANT Dump
CHECK_DEADLOCK FALSE
