SPECIFICATION Spec
CONSTANTS
  MaxLen = 3
  Shard = 0
  NShards = 1
INVARIANT Injective
CHECK_DEADLOCK FALSE
