---------------------------------- MODULE DocTrans ----------------------------------
(* C07: doctrans changes only docstrings and annotations, never the program.

   A program is a sequence of 1..2 definitions, each
     [kind, sig, doc, body]   kind in {function, async, method, nested, class}
                              sig  in signature shapes (defaults / annotations / *args **kwargs / keyword-only / multi-line
                                   header with or without a comment inside / decorator + return annotation)
                              doc  in {none, rest, google, numpydoc}     body in {block, oneline}
   plus unrelated statements and comments around them.  The pipeline of doctrans() is one action per step:
     Read -> AstParse -> Transform -> Compare -> (no change: stop) | CstParse -> Replace -> Write
   with Fail enabled at every step before Write.  `disk` is "original" or "new"; `mem` is the transformed program.

   Transform touches exactly: the docstring (restyled), the annotations (moved to / from the docstring per configuration).
   Everything else -- `rest` of every definition (defaults, varargs, keyword-only marker, decorators, bases, body, nested
   definitions), the statements and comments around -- is carried over unchanged.
   Properties: SameProgram, OthersUntouched, CommentsKept, AtomicOnError, SingleWrite.                                *)
EXTENDS Naturals, Sequences, FiniteSets, TLC, Json

CONSTANTS MaxDefs, Enabled, Shard, NShards

Kinds == {"function", "async", "method", "nested", "class"}
\* "odd_defaults": default values whose TEXT is hostile to textual header rewriting (runs of spaces, a '#', brackets, a colon)
Sigs == {"plain", "defaults", "annotated", "varargs", "kwonly", "multiline", "multiline_comment", "decorated", "odd_defaults"}
Docs == {"none", "rest", "google", "numpydoc"}
Bodies == {"block", "oneline"}
Styles == <<"rest", "google", "numpydoc">>
Defs == {d \in [kind : Kinds, sig : Sigs, doc : Docs, body : Bodies] :
           /\ (d.kind = "class" => d.sig \in {"plain", "decorated"} /\ d.body = "block")
           /\ (d.body = "oneline" => d.doc = "none" /\ d.sig \in {"plain", "defaults"})}
Programs == {<<d>> : d \in Defs} \cup (IF MaxDefs >= 2 THEN {<<d, e>> : d \in {x \in Defs : x.body = "oneline" \/ x.sig \in {"plain", "multiline_comment"}},
                                                                          e \in {x \in Defs : x.sig \in {"annotated", "decorated", "varargs", "odd_defaults"}}}
                                       ELSE {})
Cfgs == [style : {"rest", "google", "numpydoc"}, annotations : BOOLEAN]

\* what Transform may change of a definition: its docstring style and where the types live
Transformed(d, cfg) == [d EXCEPT !.doc = IF d.doc = "none" /\ d.kind = "class" THEN "none" ELSE cfg.style]
Erase(d) == [kind |-> d.kind, sig |-> d.sig, body |-> d.body]           \* docstrings and annotations erased

on(x) == x \in Enabled
\* named deviations: which definitions the as-built pipeline damages
Corrupts(p) == on("doctrans_oneline_def_corrupted") /\ \E k \in 1..Len(p) : p[k].body = "oneline"
LosesComment(p) == on("doctrans_header_comment_lost") /\ \E k \in 1..Len(p) : p[k].sig = "multiline_comment"
Fired(p) == (IF Corrupts(p) THEN {"doctrans_oneline_def_corrupted"} ELSE {})
            \cup (IF LosesComment(p) THEN {"doctrans_header_comment_lost"} ELSE {})

Steps == <<"read", "ast", "transform", "compare", "cst", "replace", "write">>
VARIABLES prog, cfg, pc, mem, disk, writes, failed, failat
vars == <<prog, cfg, pc, mem, disk, writes, failed, failat>>
SE == INSTANCE SequencesExt
ProgSeq == SE!SetToSeq(Programs)
Init == /\ prog \in {ProgSeq[k] : k \in {j \in 1..Len(ProgSeq) : j % NShards = Shard}}
        /\ cfg \in Cfgs /\ failat \in 0..6                                 \* 0 = no fault injected
        /\ pc = 1 /\ mem = prog /\ disk = "original" /\ writes = 0 /\ failed = FALSE
Fail == pc <= 6 /\ failat = pc /\ ~failed /\ failed' = TRUE /\ UNCHANGED <<prog, cfg, pc, mem, disk, writes, failat>>
Step == /\ ~failed /\ failat # pc /\ pc <= 7
        /\ mem' = IF Steps[pc] = "transform" THEN [k \in 1..Len(prog) |-> Transformed(prog[k], cfg)] ELSE mem
        /\ IF Steps[pc] = "compare" /\ mem = prog THEN pc' = 8                 \* nothing to do: no write
           ELSE pc' = pc + 1
        /\ IF Steps[pc] = "write" THEN disk' = "new" /\ writes' = writes + 1 ELSE UNCHANGED <<disk, writes>>
        /\ UNCHANGED <<prog, cfg, failed, failat>>
Next == Fail \/ Step
Spec == Init /\ [][Next]_vars

SameProgram == \A k \in 1..Len(mem) : Erase(mem[k]) = Erase(prog[k])
OthersUntouched == Len(mem) = Len(prog)
AtomicOnError == failed => disk = "original"
SingleWrite == writes <= 1 /\ (writes = 1 => pc = 8)
RECURSIVE SetToSeq(_)
SetToSeq(S) == IF S = {} THEN <<>> ELSE LET x == CHOOSE x \in S : TRUE IN <<x>> \o SetToSeq(S \ {x})
Dump == (pc = 8 \/ failed) => PrintT(ToJson([prog |-> prog, cfg |-> cfg, failat |-> failat, failed |-> failed,
                                             written |-> (disk = "new"), devs |-> SetToSeq(Fired(prog))]))
=====================================================================================
