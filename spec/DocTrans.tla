---------------------------------- MODULE DocTrans ----------------------------------
(* C07: doctrans changes only docstrings and annotations, never the program.

   A program is a sequence of 1..2 definitions, each
     [kind, sig, doc, body]   kind in {function, async, method, nested, class}
                              sig  in signature shapes (defaults / annotations / *args **kwargs / keyword-only / multi-line
                                   header with or without a comment inside / decorator + return annotation)
                              doc  in {none, rest, google, numpydoc}     body in {block, oneline}
   plus unrelated statements and comments around them.  The pipeline of doctrans() is one action per step:
     Read -> AstParse -> Transform -> Compare -> (no change: stop) | CstParse -> Replace -> Write
   with Fail enabled at every step before Write.  `disk` is "original" or "new"; `mem` is the transformed program.

   Transform touches exactly: the docstring (restyled), the annotations (moved to / from the docstring per configuration).
   Everything else -- `rest` of every definition (defaults, varargs, keyword-only marker, decorators, bases, body, nested
   definitions), the statements and comments around -- is carried over unchanged.
   Properties: SameProgram, OthersUntouched, CommentsKept, AtomicOnError, SingleWrite.                                *)
EXTENDS Naturals, Sequences, FiniteSets, TLC, Json

CONSTANTS MaxDefs, Enabled, Shard, NShards

Kinds == {"function", "async", "method", "nested", "class"}
\* "odd_defaults": default values whose TEXT is hostile to textual header rewriting (runs of spaces, a '#', brackets, a colon)
\* "posonly": positional-only parameters, with defaults, before the `/`
\* "esc_backslash", "comment_apostrophe": headers that Python reads without trouble and the line scanner underneath the concrete-syntax layer
\* does not (LineScan.tla's counterexamples: a string default ending in an escaped backslash `sep="\\"`; an apostrophe in a comment inside a
\* multi-line header) -- the scanner does not find the end of the header, the chunk swallows the body
Sigs == {"plain", "defaults", "annotated", "varargs", "kwonly", "multiline", "multiline_comment", "decorated", "odd_defaults", "posonly",
         "esc_backslash", "comment_apostrophe", "decorated_call"}
\* "decorated_call": a decorator that is itself a call with arguments (`@decorate_with(maxsize=None)`): its `(` stands before the header's own
Misscanned == {"esc_backslash", "comment_apostrophe"}
\* "types_only": a ReST docstring that holds nothing but `:type` / `:rtype:` lines; "blank": `""" """` -- docstrings that re-emit as EMPTY
\* under some configurations (then the docstring statement is deleted)
Docs == {"none", "rest", "google", "numpydoc", "types_only", "blank"}
\* "doconly": the definition's body is nothing but its docstring (a stub / interface method)
Bodies == {"block", "oneline", "doconly"}
Styles == <<"rest", "google", "numpydoc">>
Defs == {d \in [kind : Kinds, sig : Sigs, doc : Docs, body : Bodies] :
           /\ (d.kind = "class" => d.sig \in {"plain", "decorated"} /\ d.body = "block" /\ d.doc \notin {"types_only", "blank"})
           /\ (d.body = "oneline" => d.doc = "none" /\ d.sig \in {"plain", "defaults"})
           /\ (d.body = "doconly" => d.doc # "none" /\ d.sig \in {"plain", "defaults", "annotated"})
           /\ (d.doc \in {"types_only", "blank"} => d.sig \in {"plain", "defaults", "annotated"})}
Programs == {<<d>> : d \in Defs} \cup (IF MaxDefs >= 2 THEN {<<d, e>> : d \in {x \in Defs : x.body = "oneline" \/ x.sig \in {"plain", "multiline_comment"}},
                                                                          e \in {x \in Defs : x.sig \in {"annotated", "decorated", "decorated_call", "varargs", "odd_defaults"}
                                                                                               /\ x.body # "doconly" /\ x.doc \notin {"types_only", "blank"}}}
                                       ELSE {})
Cfgs == [style : {"rest", "google", "numpydoc"}, annotations : BOOLEAN]

\* what Transform may change of a definition: its docstring style and where the types live
\* (a docstring that re-emits as empty is deleted: "gone"; erasure does not see the difference)
Transformed(d, cfg) == [d EXCEPT !.doc = IF d.doc = "none" /\ d.kind = "class" THEN "none"
                                        ELSE IF d.doc \in {"types_only", "blank"} THEN "gone_or_" \o cfg.style ELSE cfg.style]
\* a definition whose ONLY statement is a docstring that may re-emit as empty: the pipeline may give up at the replace step
\* (as built it does, with an IndexError, before anything is written) -- allowed by the statement, the file stays as it was
\* ... and a definition whose header the line scanner misreads: the re-parse of the over-long header chunk fails (IndentationError) AFTER the
\* chunk list has been edited and before anything is written -- giving up there is what keeps the half-edited list off the disk
MayGiveUp(p) == \E k \in 1..Len(p) : (p[k].body = "doconly" /\ p[k].doc \in {"types_only", "blank"}) \/ p[k].doc = "blank" \/ p[k].sig \in Misscanned
Erase(d) == [kind |-> d.kind, sig |-> d.sig, body |-> d.body]           \* docstrings and annotations erased

on(x) == x \in Enabled
\* named deviations: which definitions the as-built pipeline damages
Corrupts(p) == on("doctrans_oneline_def_corrupted") /\ \E k \in 1..Len(p) : p[k].body = "oneline"
LosesComment(p) == on("doctrans_header_comment_lost") /\ \E k \in 1..Len(p) : p[k].sig = "multiline_comment"
\* an async definition's docstring is DELETED whenever the file is rewritten; when it was the only statement the header is left without a body
AsyncStub(p) == on("doctrans_async_stub_loses_its_body") /\ \E k \in 1..Len(p) : p[k].kind = "async" /\ p[k].body = "doconly"
Fired(p) == (IF Corrupts(p) THEN {"doctrans_oneline_def_corrupted"} ELSE {})
            \cup (IF AsyncStub(p) THEN {"doctrans_async_stub_loses_its_body"} ELSE {})
            \cup (IF LosesComment(p) THEN {"doctrans_header_comment_lost"} ELSE {})

Steps == <<"read", "ast", "transform", "compare", "cst", "replace", "write">>
VARIABLES prog, cfg, pc, mem, disk, writes, failed, failat
vars == <<prog, cfg, pc, mem, disk, writes, failed, failat>>
SE == INSTANCE SequencesExt
ProgSeq == SE!SetToSeq(Programs)
\* (the sequence is handed over as an ARGUMENT: TLC evaluates an argument once, a definition indexed inside a set constructor every time)
ShardOf(seq) == {seq[k] : k \in {j \in 1..Len(seq) : j % NShards = Shard}}
Init == /\ prog \in ShardOf(ProgSeq)
        /\ cfg \in Cfgs /\ failat \in 0..6                                 \* 0 = no fault injected
        /\ pc = 1 /\ mem = prog /\ disk = "original" /\ writes = 0 /\ failed = FALSE
Fail == pc <= 6 /\ failat = pc /\ ~failed /\ failed' = TRUE /\ UNCHANGED <<prog, cfg, pc, mem, disk, writes, failat>>
Step == /\ ~failed /\ failat # pc /\ pc <= 7
        /\ mem' = IF Steps[pc] = "transform" THEN [k \in 1..Len(prog) |-> Transformed(prog[k], cfg)] ELSE mem
        /\ IF Steps[pc] = "compare" /\ mem = prog THEN pc' = 8                 \* nothing to do: no write
           ELSE pc' = pc + 1
        /\ IF Steps[pc] = "write" THEN disk' = "new" /\ writes' = writes + 1 ELSE UNCHANGED <<disk, writes>>
        /\ UNCHANGED <<prog, cfg, failed, failat>>
GiveUp == pc = 6 /\ ~failed /\ failat = 0 /\ MayGiveUp(prog) /\ failed' = TRUE /\ UNCHANGED <<prog, cfg, pc, mem, disk, writes, failat>>
Next == Fail \/ Step \/ GiveUp
Spec == Init /\ [][Next]_vars

SameProgram == \A k \in 1..Len(mem) : Erase(mem[k]) = Erase(prog[k])
OthersUntouched == Len(mem) = Len(prog)
AtomicOnError == failed => disk = "original"
SingleWrite == writes <= 1 /\ (writes = 1 => pc = 8)
RECURSIVE SetToSeq(_)
SetToSeq(S) == IF S = {} THEN <<>> ELSE LET x == CHOOSE x \in S : TRUE IN <<x>> \o SetToSeq(S \ {x})
Dump == (pc = 8 \/ failed) => PrintT(ToJson([prog |-> prog, cfg |-> cfg, failat |-> failat, failed |-> failed,
                                             written |-> (disk = "new"), devs |-> SetToSeq(Fired(prog))]))
=====================================================================================
