SPECIFICATION Spec
CONSTANTS
  A = 2000
  B = 200
INVARIANT Report
CHECK_DEADLOCK FALSE
