------------------------------------ MODULE Cst ------------------------------------
(* Character-level transcription of cdd/shared/cst_utils.py: cst_scanner / cst_scan / cst_parser (C09).

   Characters are symbolic names ("NL" "SP" "SQ" "DQ" "HASH" "BS" and the printable ones as themselves);
   the source is the expansion of a sequence of <= MaxTok macro tokens from a lexical alphabet.
   One Push step = one iteration of cst_scanner's `for ch in source` loop (a scan happens when the
   character is a newline); Final = the trailing scan + flush; ParseNode = one cst_parse_one_node call.

   Invariants:  Conservation (every state), Lossless, NoEmptyChunk, Tiling, NodesLossless.            *)
EXTENDS Integers, Sequences, FiniteSets, TLC, Json

CONSTANTS MaxTok, Shard, NShards

TokenSeq == <<"NL", "SP", "SQ", "DQ", "TSQ", "TDQ", "HASH", "BS", "(", ")", "[", "]", ":", "=", "@", ";",
              "DEF", "CLASS", "x">>
NTok == Len(TokenSeq)

TSQ == <<"SQ", "SQ", "SQ">>
TDQ == <<"DQ", "DQ", "DQ">>
KwDef == <<"d", "e", "f">>
KwClass == <<"c", "l", "a", "s", "s">>
WS == {"NL", "SP"}

Expand(t) == CASE t = "TSQ" -> TSQ [] t = "TDQ" -> TDQ
               [] t = "DEF" -> KwDef \o <<"SP">> [] t = "CLASS" -> KwClass \o <<"SP">>
               [] OTHER -> <<t>>

RECURSIVE Flat(_)
Flat(ss) == IF ss = <<>> THEN <<>> ELSE Head(ss) \o Flat(Tail(ss))

\* ---- str methods and pure_utils helpers ---------------------------------------------------
MinOf(S) == CHOOSE x \in S : \A y \in S : x <= y
MaxOf(S) == CHOOSE x \in S : \A y \in S : x >= y
Strip(s) == LET idx == {i \in 1..Len(s) : s[i] \notin WS}
            IN IF idx = {} THEN <<>> ELSE SubSeq(s, MinOf(idx), MaxOf(idx))
StartsWith(s, p) == Len(s) >= Len(p) /\ SubSeq(s, 1, Len(p)) = p
EndsWith(s, p) == Len(s) >= Len(p) /\ SubSeq(s, Len(s) - Len(p) + 1, Len(s)) = p
HasSub(s, p) == \E i \in 1..(Len(s) - Len(p) + 1) : SubSeq(s, i, i + Len(p) - 1) = p
IsSpace(s) == s # <<>> /\ \A i \in 1..Len(s) : s[i] \in WS
IsTripleQuoted(s) == Len(s) > 5 /\ \/ StartsWith(s, TSQ) /\ EndsWith(s, TSQ)
                                   \/ StartsWith(s, TDQ) /\ EndsWith(s, TDQ)

\* balanced_parentheses: per-kind counters, whatever is inside quotes ignored, backslash-escaped closing quote
RECURSIVE Bal(_, _, _, _, _, _)
Bal(s, i, q, p, b, c) ==
  IF i > Len(s) THEN p = 0 /\ b = 0 /\ c = 0
  ELSE LET ch == s[i] IN
       IF q # "" /\ ch = q /\ (i = 1 \/ s[i - 1] # "BS") THEN Bal(s, i + 1, "", p, b, c)
       ELSE IF q = "" THEN
              IF ch \in {"SQ", "DQ"} THEN Bal(s, i + 1, ch, p, b, c)
              ELSE Bal(s, i + 1, q,
                       p + (IF ch = "(" THEN 1 ELSE IF ch = ")" THEN -1 ELSE 0),
                       b + (IF ch = "[" THEN 1 ELSE IF ch = "]" THEN -1 ELSE 0),
                       c + (IF ch = "{" THEN 1 ELSE IF ch = "}" THEN -1 ELSE 0))
            ELSE Bal(s, i + 1, q, p, b, c)
Balanced(s) == Bal(s, 1, "", 0, 0, 0)

\* tuple(filter(None, map(str.strip, s.split(" "))))
RECURSIVE SplitSP(_, _, _)
SplitSP(s, i, cur) == IF i > Len(s) THEN <<cur>>
                      ELSE IF s[i] = "SP" THEN <<cur>> \o SplitSP(s, i + 1, <<>>)
                      ELSE SplitSP(s, i + 1, Append(cur, s[i]))
Words(s) == SelectSeq([k \in 1..Len(SplitSP(s, 1, <<>>)) |-> Strip(SplitSP(s, 1, <<>>)[k])], LAMBDA w : w # <<>>)
HasWord(ws, w) == \E k \in 1..Len(ws) : ws[k] = w

\* ---- cst_scan: the shortest-match loop of the is_other_statement branch ------------------------
RECURSIVE SplitStmt(_, _, _, _)
SplitStmt(stmt, i, expr, out) ==
  IF i > Len(stmt) THEN (IF expr # <<>> THEN Append(out, expr) ELSE out)
  ELSE LET e  == Append(expr, stmt[i])
           es == Strip(e)
       IN IF IsTripleQuoted(es) \/ (StartsWith(es, <<"HASH">>) /\ EndsWith(e, <<"NL">>))
          THEN SplitStmt(stmt, i + 1, <<>>, Append(out, e))
          ELSE IF Balanced(es) THEN
                 IF /\ EndsWith(e, <<"NL">>)
                    /\ ~EndsWith(es, <<"BS">>)
                    /\ (~EndsWith(es, <<":">>) \/ (~HasSub(es, KwClass) /\ ~HasSub(es, KwDef)))
                    /\ ~IsSpace(e)
                    /\ ~StartsWith(es, <<"@">>)
                 THEN SplitStmt(stmt, i + 1, <<>>, Append(out, e))
                 ELSE LET ws == Words(es) IN
                      IF (HasWord(ws, KwDef) \/ HasWord(ws, KwClass)) /\ EndsWith(ws[Len(ws)], <<":">>)
                      THEN SplitStmt(stmt, i + 1, <<>>, Append(out, e))
                      ELSE SplitStmt(stmt, i + 1, e, out)
               ELSE SplitStmt(stmt, i + 1, e, out)

Branch(stack) ==
  LET ss == Strip(stack)
      cont == EndsWith(ss, <<"BS">>)
  IN IF StartsWith(ss, <<"HASH">>) THEN "comment"
     ELSE IF ~cont /\ ss # <<>> /\ Balanced(ss) /\ (~StartsWith(ss, <<"@">>) \/ EndsWith(ss, <<":">>))
              /\ ~StartsWith(ss, TSQ) /\ ~StartsWith(ss, TDQ) THEN "other"
     ELSE IF ~cont /\ IsTripleQuoted(ss) THEN "triple"
     ELSE "keep"

\* cst_scan(scanned, stack) -> <<scanned', stack'>>
Scan(scanned, stack) ==
  LET br == Branch(stack)
  IN CASE br = "comment" -> <<Append(scanned, stack), <<>>>>
       [] br = "other"   -> <<scanned \o SplitStmt(stack, 1, <<>>, <<>>), <<>>>>
       [] br = "triple"  -> <<Append(scanned, stack), <<>>>>
       [] OTHER          -> <<scanned, stack>>

\* ---- the machine ------------------------------------------------------------------------------
VARIABLES toks, src, pos, stack, scanned, done, acc, nodes
vars == <<toks, src, pos, stack, scanned, done, acc, nodes>>

Hash(ts) == LET RECURSIVE H(_) H(i) == IF i > Len(ts) THEN 0 ELSE ts[i] * (i + 6) + H(i + 1) IN H(1)
TokIdxSeqs == UNION {[1..n -> 1..NTok] : n \in 0..MaxTok}

Init == /\ toks \in {ts \in TokIdxSeqs : Hash(ts) % NShards = Shard}
        /\ src = Flat([i \in 1..Len(toks) |-> Expand(TokenSeq[toks[i]])])
        /\ pos = 0 /\ stack = <<>> /\ scanned = <<>> /\ done = FALSE /\ acc = 1 /\ nodes = <<>>

Push == /\ pos >= 0 /\ pos < Len(src)
        /\ LET ch == src[pos + 1]
               r  == IF ch = "NL" THEN Scan(scanned, stack) ELSE <<scanned, stack>>
           IN scanned' = r[1] /\ stack' = Append(r[2], ch)
        /\ pos' = pos + 1 /\ UNCHANGED <<toks, src, done, acc, nodes>>

Final == /\ pos = Len(src) /\ ~done
         /\ LET r == Scan(scanned, stack)
            IN scanned' = (IF r[2] # <<>> THEN Append(r[1], r[2]) ELSE r[1]) /\ stack' = <<>>
         /\ done' = TRUE /\ UNCHANGED <<toks, src, pos, acc, nodes>>

Count(s, ch) == Cardinality({i \in 1..Len(s) : s[i] = ch})

\* cst_parse_one_node: acc += statement.count("\n"); node = (prev_acc, acc, statement)
ParseNode == /\ done /\ Len(nodes) < Len(scanned)
             /\ LET st == scanned[Len(nodes) + 1] IN
                  /\ acc' = acc + Count(st, "NL")
                  /\ nodes' = Append(nodes, [s |-> acc, e |-> acc + Count(st, "NL"), v |-> st])
             /\ UNCHANGED <<toks, src, pos, stack, scanned, done>>

Next == Push \/ Final \/ ParseNode
Spec == Init /\ [][Next]_vars

\* for -simulate beyond the exhaustive bound: the source is generated token by token (pos = -1 while generating),
\* so that no huge set of initial states has to be built
SimInit == /\ toks = <<>> /\ src = <<>> /\ pos = 0 - 1 /\ stack = <<>> /\ scanned = <<>> /\ done = FALSE /\ acc = 1 /\ nodes = <<>>
AddTok == /\ pos = 0 - 1 /\ Len(toks) < MaxTok
          /\ \E t \in 1..NTok : toks' = Append(toks, t) /\ src' = src \o Expand(TokenSeq[t])
          /\ UNCHANGED <<pos, stack, scanned, done, acc, nodes>>
Begin == pos = 0 - 1 /\ pos' = 0 /\ UNCHANGED <<toks, src, stack, scanned, done, acc, nodes>>
SimSpec == SimInit /\ [][AddTok \/ Begin \/ Next]_vars

\* ---- properties -------------------------------------------------------------------------------
Conservation == ~done => Flat(scanned) \o stack = SubSeq(src, 1, pos)
Lossless == done => Flat(scanned) = src
NoEmptyChunk == \A i \in 1..Len(scanned) : scanned[i] # <<>>
Parsed == done /\ Len(nodes) = Len(scanned)
NodesLossless == Parsed => Flat([i \in 1..Len(nodes) |-> nodes[i].v]) = src
Tiling == /\ (nodes # <<>> => nodes[1].s = 1)
          /\ \A i \in 1..Len(nodes) : nodes[i].e - nodes[i].s = Count(nodes[i].v, "NL")
          /\ \A i \in 1..(Len(nodes) - 1) : nodes[i + 1].s = nodes[i].e

\* terminal states leave TLC as JSON for the replay into the real scanner / parser
Dump == Parsed => PrintT(ToJson([toks |-> [i \in 1..Len(toks) |-> TokenSeq[toks[i]]],
                                 chunks |-> [i \in 1..Len(scanned) |-> Len(scanned[i])],
                                 lines |-> [i \in 1..Len(nodes) |-> <<nodes[i].s, nodes[i].e>>]]))
=====================================================================================
