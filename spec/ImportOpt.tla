---------------------------------- MODULE ImportOpt ----------------------------------
(* optimise_imports (cdd/shared/ast_utils.py): the de-duplication of the `from .. import ..` statements that `gen --emit-and-infer-imports`
   and `exmod` write at the top of a generated module (C19's ImportsCover clause sees only its consequences).

   An import statement is [mod, level, names], names a sequence of [name, as]; the input is a sequence of statements.
   AsBuilt(S): sort S by module (stable); walk it; a (module, name, as) triple that was seen before is dropped; a statement that keeps at
               least one name is emitted with ITS OWN level and the kept names.  The level is NOT part of the "seen" key.
   Designed(S): the same with the level in the key (`from typing import X` and `from .typing import X` are different imports).
   Laws (TLC, over all sequences of <= MaxLen statements):
       Coverage    every (module, level, name, as) of the input is imported by the output         -- as built: REFUTED (two levels, one name)
       NoDup       no (module, level, name, as) is imported twice
       Sound       nothing is imported that the input did not import
       Idempotent  Opt(Opt(S)) = Opt(S)
       Sorted      the output is ordered by module                                                                                      *)
EXTENDS Naturals, Sequences, FiniteSets, TLC, Json

CONSTANTS AsBuilt, MaxLen, Shard, NShards

Mods == <<"m", "n">>                                  \* in sort order
ModRank(x) == IF x = "m" THEN 1 ELSE 2
NameSeqs == {<<[name |-> "A", as |-> "-"]>>, <<[name |-> "B", as |-> "-"]>>, <<[name |-> "A", as |-> "z"]>>,
             <<[name |-> "A", as |-> "-"], [name |-> "B", as |-> "-"]>>, <<[name |-> "B", as |-> "-"], [name |-> "A", as |-> "-"]>>}
Stmts == [mod : {"m", "n"}, level : {0, 1}, names : NameSeqs]
Inputs == UNION {[1..n -> Stmts] : n \in 0..MaxLen}

\* stable sort by module: all "m" statements in input order, then all "n" statements
SortByMod(S) == SelectSeq(S, LAMBDA s : s.mod = "m") \o SelectSeq(S, LAMBDA s : s.mod = "n")
Key(s, nm) == IF AsBuilt THEN <<s.mod, nm.name, nm.as>> ELSE <<s.mod, s.level, nm.name, nm.as>>
\* the kept names of statement s given the keys seen so far, and the keys after it (names inside one statement are checked in order too)
RECURSIVE KeepNames(_, _, _, _)
KeepNames(s, k, seen, acc) ==
  IF k > Len(s.names) THEN <<acc, seen>>
  ELSE IF Key(s, s.names[k]) \in seen THEN KeepNames(s, k + 1, seen, acc)
  ELSE KeepNames(s, k + 1, seen \cup {Key(s, s.names[k])}, Append(acc, s.names[k]))
RECURSIVE Walk(_, _, _)
Walk(S, seen, out) ==
  IF S = <<>> THEN out
  ELSE LET r == KeepNames(Head(S), 1, seen, <<>>) IN
       Walk(Tail(S), r[2], IF r[1] = <<>> THEN out ELSE Append(out, [mod |-> Head(S).mod, level |-> Head(S).level, names |-> r[1]]))
Opt(S) == Walk(SortByMod(S), {}, <<>>)

Triples(S) == UNION {{<<S[i].mod, S[i].level, S[i].names[j].name, S[i].names[j].as>> : j \in 1..Len(S[i].names)} : i \in 1..Len(S)}
Count(S) == LET idx == {<<i, j>> \in (1..Len(S)) \X (1..2) : j <= Len(S[i].names)} IN Cardinality(idx)

VARIABLES inp, pc
vars == <<inp, pc>>
FirstRank(S) == IF S = <<>> THEN 0 ELSE ModRank(S[1].mod) + 2 * S[1].level
Init == inp \in {S \in Inputs : FirstRank(S) % NShards = Shard} /\ pc = "go"
Go == pc = "go" /\ pc' = "done" /\ UNCHANGED inp
Spec == Init /\ [][Go]_vars

Coverage == Triples(inp) \subseteq Triples(Opt(inp))
Sound == Triples(Opt(inp)) \subseteq Triples(inp)
NoDup == Count(Opt(inp)) = Cardinality(Triples(Opt(inp)))
Idempotent == Opt(Opt(inp)) = Opt(inp)
Sorted == \A i, j \in 1..Len(Opt(inp)) : i < j => ModRank(Opt(inp)[i].mod) <= ModRank(Opt(inp)[j].mod)
Dump == pc = "done" => PrintT(ToJson([inp |-> inp, out |-> Opt(inp)]))
=====================================================================================
