SPECIFICATION Spec
CONSTANTS
  MaxDefs = 2
  Enabled = {}
  Shard = 0
  NShards = 1
INVARIANT SameProgram
INVARIANT AtomicOnError
INVARIANT SingleWrite
INVARIANT Dump
CHECK_DEADLOCK FALSE
