SPECIFICATION TraceSpec
CONSTANTS
  MaxRuns = 3
  Enabled = {}
  Shard = 0
  NShards = 1
CHECK_DEADLOCK FALSE
