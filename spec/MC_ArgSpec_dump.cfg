SPECIFICATION Spec
CONSTANTS
  AsBuilt = TRUE
  Shard = 0
  NShards = 1
INVARIANT Dump
CHECK_DEADLOCK FALSE
