\* the expansion of every sequence of <= MaxTok docstring tokens; token sequences are dumped for the replay
SPECIFICATION Spec
CONSTANTS
  Mode = "tokens"
  MaxLen = 0
  MaxTok = 2
  PumpK = 0
  Advance = TRUE
  Shard = 0
  NShards = 1
PROPERTY Progress
INVARIANT Linear
INVARIANT Dump
CHECK_DEADLOCK FALSE
