---------------------------------- MODULE Quote ----------------------------------
(* X09: quote / unquote (cdd.shared.pure_utils) -- the two functions every default value passes on its way into a docstring
   (`Defaults to <quote(value)>`) and back.  C01-C03 see them only through whole round trips; three seeded changes and two repaired
   defects (empty-string default, quoted default with a full stop) lived in or next to them.

   A string is a sequence over Chars (DQ = ", SQ = ', a letter, a digit, a blank, BS = backslash), <= MaxLen long; mark is DQ or SQ.
   As built:   Quote(s, mark)  = s                      if s is empty or "looks quoted" (>= 2 characters, first = last, a quote character)
                               = mark \o s \o mark      otherwise
               Unquote(t)      = t without its first and last character if it looks quoted, else t
   Laws that hold as built (TLC proves them over all strings):
     Idempotent      Quote(Quote(s)) = Quote(s)
     Inverse         Unquote(Quote(s)) = s            for every s that does not look quoted
     QuotedOrEmpty   a non-empty result looks quoted
   What a caller that WRITES a value and READS it back with Python's own literal reader needs, and TLC must refute as built:
     AlwaysQuoted    every result looks quoted             -- the empty string stays empty: `Defaults to ` followed by nothing
     Injective       different values give different texts -- the 3-character value 'a' and the 1-character value a give the same text
     Literal         the result is a well-formed Python string literal -- a value containing the mark, or ending in a backslash, is
                     wrapped without escaping: "a"b", "\"
   WellFormed(t) is Python's own rule for a one-line string literal (a backslash escapes the next character; the literal ends at the first
   unescaped occurrence of its opening quote, which must be the last character); the harness checks it against ast.literal_eval.          *)
EXTENDS Naturals, Sequences, FiniteSets, TLC, Json

CONSTANTS MaxLen, Shard, NShards

Chars == <<"DQ", "SQ", "a", "5", "SP", "BS">>
Marks == {"DQ", "SQ"}
RECURSIVE StrsOf(_)
StrsOf(n) == IF n = 0 THEN {<<>>} ELSE StrsOf(n - 1) \cup {Append(s, Chars[k]) : s \in {t \in StrsOf(n - 1) : Len(t) = n - 1}, k \in 1..Len(Chars)}
Strs == StrsOf(MaxLen)

LooksQuoted(s) == Len(s) > 1 /\ s[1] = s[Len(s)] /\ s[1] \in Marks
Quote(s, mark) == IF Len(s) = 0 \/ LooksQuoted(s) THEN s ELSE <<mark>> \o s \o <<mark>>
Unquote(t) == IF LooksQuoted(t) THEN SubSeq(t, 2, Len(t) - 1) ELSE t

\* Python's rule: scan the inside; esc = the previous character was an unescaped backslash
RECURSIVE InsideOK(_, _, _, _)
InsideOK(t, i, esc, q) == IF i > Len(t) - 1 THEN ~esc                      \* (a dangling backslash would escape the closing quote)
                          ELSE IF esc THEN InsideOK(t, i + 1, FALSE, q)
                          ELSE IF t[i] = "BS" THEN InsideOK(t, i + 1, TRUE, q)
                          ELSE IF t[i] = q THEN FALSE                      \* the literal would end here, before its last character
                          ELSE InsideOK(t, i + 1, FALSE, q)
\* (two quote characters in a row open a triple-quoted literal unless they ARE the whole literal)
WellFormed(t) == /\ Len(t) >= 2 /\ t[1] \in Marks /\ t[Len(t)] = t[1]
                 /\ InsideOK(t, 2, FALSE, t[1])
                 /\ ~(Len(t) > 2 /\ t[2] = t[1])

VARIABLES s, mark, out, pc
vars == <<s, mark, out, pc>>
SE == INSTANCE SequencesExt
StrSeq == SE!SetToSeq(Strs)
ShardOf(seq) == {seq[k] : k \in {j \in 1..Len(seq) : j % NShards = Shard}}
Init == s \in ShardOf(StrSeq) /\ mark \in Marks /\ out = <<>> /\ pc = "start"
Run == pc = "start" /\ out' = Quote(s, mark) /\ pc' = "done" /\ UNCHANGED <<s, mark>>
Spec == Init /\ [][Run]_vars

Idempotent == pc = "done" => Quote(out, mark) = out
Inverse == (pc = "done" /\ ~LooksQuoted(s)) => Unquote(out) = s
QuotedOrEmpty == pc = "done" => (out = <<>> \/ LooksQuoted(out))
AlwaysQuoted == pc = "done" => LooksQuoted(out)
Injective == pc = "done" => \A t \in Strs : t # s => Quote(t, mark) # out
Literal == (pc = "done" /\ s # <<>>) => WellFormed(out)             \* (the empty string is AlwaysQuoted's counterexample)
Dump == pc = "done" => PrintT(ToJson([s |-> s, mark |-> mark, out |-> out, unq |-> Unquote(s), wf |-> WellFormed(out), swf |-> WellFormed(s)]))
=====================================================================================
