\* enumeration of the modelled inputs (no behaviours explored: a constraint stops at the initial states)
SPECIFICATION Spec
CONSTANTS
  MaxSig = 3
  MaxCalls = 2
  OrderedMerge = TRUE
  ReadsLeak = FALSE
  OrderedScan = TRUE
  TableCalls = FALSE
  Registers = FALSE
  Aliases = FALSE
INVARIANT DumpInputs
CONSTRAINT Stop
CHECK_DEADLOCK FALSE
