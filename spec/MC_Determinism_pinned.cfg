\* the pinned code: the undocumented parameters are merged in set-iteration order -> TLC must find the counterexample
SPECIFICATION Spec
CONSTANTS
  MaxSig = 3
  OrderedMerge = FALSE
  ReadsLeak = FALSE
INVARIANT Functional
CHECK_DEADLOCK FALSE
