\* the pinned code: the undocumented parameters are merged in set-iteration order -> TLC must find the counterexample
SPECIFICATION Spec
CONSTANTS
  MaxSig = 3
  MaxCalls = 2
  OrderedMerge = FALSE
  ReadsLeak = FALSE
  OrderedScan = TRUE
  TableCalls = FALSE
  Registers = FALSE
  Aliases = FALSE
INVARIANT Functional
CHECK_DEADLOCK FALSE
