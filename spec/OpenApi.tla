---------------------------------- MODULE OpenApi ----------------------------------
(* C16: the generated OpenAPI document is closed and matches the requested CRUD.

   A model is [shape, pk]: shape fixes (class name, table name), pk is "explicit" or "inferred".  A behaviour adds
   1..MaxModels models one by one (AddModel = gen_routes + upsert_routes for that model) and then builds the document
   (Bulk = openapi_bulk over the models file and the routes file).
     schemas        component keys          requestBodies   request-body keys
     refs           every $ref in the document (as component keys, tagged with their section)
     ops            (model, operation) pairs present in `paths`, operation in {"post", "get", "delete"}
     params         models whose item path declares its path template parameter
   Properties: Serialisable, Closed, BodiesDefined, PathParamsDeclared, OpsExact.                                  *)
EXTENDS Naturals, Sequences, FiniteSets, TLC, Json

CONSTANTS MaxModels, Enabled, Shard, NShards

\* name shapes: <<class name, table name, what the code derives as schema key: Title(Replace(table, "_tbl", ""))>>
\* Pet / Label: names that END in one of the characters of "_tbl" (a suffix must be removed as a suffix, not as a character set)
Shapes == {"Config_config_tbl", "FooBar_foo_bar", "node_node", "Other_other_tbl", "Xy_xy", "Pet_pet_tbl", "Label_label"}
NameOf(s) == CASE s = "Config_config_tbl" -> "Config" [] s = "FooBar_foo_bar" -> "FooBar" [] s = "node_node" -> "node"
               [] s = "Other_other_tbl" -> "Other" [] s = "Xy_xy" -> "Xy" [] s = "Pet_pet_tbl" -> "Pet" [] s = "Label_label" -> "Label"
DerivedKey(s) == CASE s = "Config_config_tbl" -> "Config" [] s = "FooBar_foo_bar" -> "Foo_Bar" [] s = "node_node" -> "Node"
                   [] s = "Other_other_tbl" -> "Other" [] s = "Xy_xy" -> "Xy" [] s = "Pet_pet_tbl" -> "Pet" [] s = "Label_label" -> "Label"
ShapeIdx(s) == CASE s = "Config_config_tbl" -> 0 [] s = "FooBar_foo_bar" -> 1 [] s = "node_node" -> 2
                 [] s = "Other_other_tbl" -> 3 [] s = "Xy_xy" -> 4 [] s = "Pet_pet_tbl" -> 5 [] s = "Label_label" -> 6
Cruds == {"C", "R", "D", "CR", "CD", "RD", "CRD"}
Has(crud, l) == CASE l = "C" -> crud \in {"C", "CR", "CD", "CRD"} [] l = "R" -> crud \in {"R", "CR", "RD", "CRD"}
                  [] l = "D" -> crud \in {"D", "CD", "RD", "CRD"}
OpsOf(crud) == (IF Has(crud, "C") THEN {"post"} ELSE {}) \cup (IF Has(crud, "R") THEN {"get"} ELSE {})
               \cup (IF Has(crud, "D") THEN {"delete"} ELSE {})
Pks == {"explicit", "inferred"}
Prefixes == {"/api", "/v1/things"}

on(d) == d \in Enabled
VARIABLES models, crud, prefix, pc
vars == <<models, crud, prefix, pc>>

Init == /\ models = <<>> /\ crud \in Cruds /\ prefix \in Prefixes /\ pc = "adding"
AddModel(s, pk) == /\ pc = "adding" /\ Len(models) < MaxModels
                   /\ \A k \in 1..Len(models) : models[k].shape # s
                   /\ (models = <<>> => ShapeIdx(s) % NShards = Shard)                 \* shard by the first model
                   /\ models' = Append(models, [shape |-> s, pk |-> pk]) /\ UNCHANGED <<crud, prefix, pc>>
Bulk == pc = "adding" /\ models # <<>> /\ pc' = "built" /\ UNCHANGED <<models, crud, prefix>>
Next == (\E s \in Shapes, pk \in Pks : AddModel(s, pk)) \/ Bulk
Spec == Init /\ [][Next]_vars

\* ---- the document (as built when the deviations are enabled) ----------------------------------------------------
M == {models[k] : k \in 1..Len(models)}
Listed == IF on("openapi_bulk_later_models_missing") THEN {models[1]} ELSE M      \* whose operations appear in `paths`
KeyOf(m) == IF on("openapi_key_titlecase") THEN DerivedKey(m.shape) ELSE NameOf(m.shape)
Schemas == {KeyOf(m) : m \in M} \cup {"ServerError"}
Bodies == {NameOf(m.shape) \o "Body" : m \in {x \in Listed : Has(crud, "C")}}
Refs == {<<"schemas", NameOf(m.shape)>> : m \in {x \in Listed : Has(crud, "C") \/ Has(crud, "R")}}
        \cup {<<"schemas", "ServerError">>}
        \cup {<<"requestBodies", NameOf(m.shape) \o "Body">> : m \in {x \in Listed : Has(crud, "C")}}
Ops == {<<NameOf(m.shape), op>> : m \in Listed, op \in OpsOf(crud)}
ParamsDeclared == {NameOf(m.shape) : m \in {x \in Listed : Has(crud, "R") \/ Has(crud, "D")}}
IsSerialisable == ~(on("openapi_inferred_pk_not_serialisable") /\ \E m \in M : m.pk = "inferred")

Serialisable == pc = "built" => IsSerialisable
Closed == pc = "built" => \A r \in Refs : (r[1] = "schemas" => r[2] \in Schemas) /\ (r[1] = "requestBodies" => r[2] \in Bodies)
BodiesDefined == pc = "built" => \A m \in M : Has(crud, "C") /\ m \in Listed => (NameOf(m.shape) \o "Body") \in Bodies
PathParamsDeclared == pc = "built" => \A m \in Listed : (Has(crud, "R") \/ Has(crud, "D")) => NameOf(m.shape) \in ParamsDeclared
OpsExact == pc = "built" => Ops = {<<NameOf(m.shape), op>> : m \in M, op \in OpsOf(crud)}
All5 == Serialisable /\ Closed /\ BodiesDefined /\ PathParamsDeclared /\ OpsExact

Fired == (IF on("openapi_key_titlecase") /\ (Has(crud, "C") \/ Has(crud, "R")) /\ \E m \in Listed : DerivedKey(m.shape) # NameOf(m.shape)
          THEN {"openapi_key_titlecase"} ELSE {})
         \cup (IF on("openapi_bulk_later_models_missing") /\ Len(models) >= 2 THEN {"openapi_bulk_later_models_missing"} ELSE {})
         \cup (IF ~IsSerialisable THEN {"openapi_inferred_pk_not_serialisable"} ELSE {})
All5OrDeviation == pc = "built" => (All5 \/ Fired # {})
RECURSIVE SetToSeq(_)
SetToSeq(S) == IF S = {} THEN <<>> ELSE LET x == CHOOSE x \in S : TRUE IN <<x>> \o SetToSeq(S \ {x})
Dump == pc = "built" => PrintT(ToJson([models |-> models, crud |-> crud, prefix |-> prefix, devs |-> SetToSeq(Fired),
                                       schemas |-> SetToSeq(Schemas), ops |-> SetToSeq(Ops)]))
=====================================================================================
