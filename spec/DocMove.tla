---------------------------------- MODULE DocMove ----------------------------------
(* What doctrans is FOR: converting the docstring style of a definition and moving its types between the signature and the docstring.
   C07 states only what doctrans must NOT do (change the program); no listed property states what it must do.

   A function of three parameters and a return entry.  For every entry e the state records where its type is written:
       sig[e]  in {"none", "T"}      an annotation in the signature (the return annotation for "ret")
       doc[e]  in {"none", "T"}      a type in the docstring
   plus the docstring's `style` and a counter `rev` of textual revisions of the docstring (bumped iff a run rewrites it).
   Known(e) = the type the function declares for e in either place.
   Run(cfg), cfg = [style, ann]:
       sig'[e] = Known(e) if cfg.ann else "none"
       doc'[e] = Known(e) unless the types went to the signature -- except that the Google style ALWAYS writes types, and the NumPy
                 style always writes the RETURN type (its type line is all a NumPy return entry has for a name line)
       style'  = cfg.style;   rev' = rev + 1 iff anything changed
   Properties:  NoTypeLost    Known'(e) = Known(e)                                  (an action property)
                Moved         after Run(cfg) every known type is where cfg wants it
                OnePlace      ... and only there (Google, and NumPy's return entry, excepted: they keep a copy in the docstring)
                Idempotent    a second Run(cfg) changes nothing: rev stays                (an action property)
   As built TLC must find two of them violated: Idempotent (a docstring rewritten in the Google style drifts: every further run re-indents
   it again and re-reads a written return type into the return description) and NoTypeLost (`-> bool` on a function that returns an
   expression is forgotten: --no-type-annotations removes the annotation and writes no :rtype:).                                     *)
EXTENDS Naturals, Sequences, FiniteSets, TLC, Json

CONSTANTS AsBuilt, MaxRuns, Shard, NShards

Entries == {"a", "b", "c", "ret"}
Styles == {"rest", "google", "numpydoc"}
Places == {"none", "T"}
Cfgs == [style : Styles, ann : BOOLEAN]

\* initial layouts: each parameter's type in the signature only, the docstring only, both, or nowhere; the return likewise
Layouts == {"sig", "doc", "both", "nowhere"}
SigOf(l) == IF l \in {"sig", "both"} THEN "T" ELSE "none"
DocOf(l) == IF l \in {"doc", "both"} THEN "T" ELSE "none"

\* retexpr: the function's last statement returns an EXPRESSION (`return bool(a)`) rather than nothing / a name -- the interface
\* description then carries that expression as the return entry's default
VARIABLES sig, doc, style, rev, cfg, runs, lay, from, retexpr
vars == <<sig, doc, style, rev, cfg, runs, lay, from, retexpr>>
Known(e) == IF sig[e] = "T" \/ doc[e] = "T" THEN "T" ELSE "none"

\* the layouts are per entry; to keep the space small a and ret vary freely, b and c follow fixed, different layouts
LayoutFns == {l \in [Entries -> Layouts] : l["b"] = "doc" /\ l["c"] = "both"}
SE == INSTANCE SequencesExt
LaySeq == SE!SetToSeq(LayoutFns)
\* (the sequence is handed over as an ARGUMENT: TLC evaluates an argument once, a definition indexed inside a set constructor every time)
ShardOf(seq) == {seq[k] : k \in {j \in 1..Len(seq) : j % NShards = Shard}}
Init == /\ lay \in ShardOf(LaySeq)
        /\ sig = [e \in Entries |-> SigOf(lay[e])] /\ doc = [e \in Entries |-> DocOf(lay[e])]
        /\ style \in Styles /\ from = style /\ cfg \in Cfgs /\ rev = 0 /\ runs = 0 /\ retexpr \in BOOLEAN

\* what the interface description that doctrans builds knows about e's type.  As built, a return type that stands ONLY in the signature
\* is forgotten when the function returns an expression (the parser deletes a bracket-less type that stands next to an expression)
Forgets(e) == AsBuilt /\ e = "ret" /\ retexpr /\ sig[e] = "T" /\ doc[e] = "none"
IrKnows(e) == IF Forgets(e) THEN "none" ELSE Known(e)
\* (a forgotten type is not written anywhere new; with --type-annotations the old annotation is simply left where it is)
WantSig(e, c) == IF c.ann THEN (IF Forgets(e) THEN sig[e] ELSE Known(e)) ELSE "none"
KeepsCopy(e, st) == st = "google" \/ (st = "numpydoc" /\ e = "ret")
WantDoc(e, c) == IF c.ann /\ ~KeepsCopy(e, c.style) THEN "none" ELSE IrKnows(e)
\* as built the Google style is not a fixpoint: a run MAY rewrite a Google docstring that needs no change -- re-indenting it once more and
\* re-reading a written return type `bool:` into the return description.  Whether it does depends on details below this abstraction (is there
\* a Returns section, was the docstring rewritten by the previous run), so the as-built machine is nondeterministic here
Run == /\ runs < MaxRuns
       /\ sig' = [e \in Entries |-> WantSig(e, cfg)]
       /\ doc' = [e \in Entries |-> WantDoc(e, cfg)]
       /\ style' = cfg.style
       /\ \E drift \in (IF AsBuilt /\ cfg.style = "google" THEN BOOLEAN ELSE {FALSE}) :
             rev' = IF drift \/ sig' # sig \/ doc' # doc \/ style' # style THEN rev + 1 ELSE rev
       /\ runs' = runs + 1 /\ UNCHANGED <<cfg, lay, from, retexpr>>
Spec == Init /\ [][Run]_vars

NoTypeLost == [][\A e \in Entries : (IF sig'[e] = "T" \/ doc'[e] = "T" THEN "T" ELSE "none") = Known(e)]_vars
Moved == runs >= 1 => \A e \in Entries : Known(e) = "T" => (IF cfg.ann THEN sig[e] = "T" ELSE doc[e] = "T")
OnePlace == runs >= 1 => \A e \in Entries : ~(sig[e] = "T" /\ doc[e] = "T" /\ ~KeepsCopy(e, style))
Idempotent == [][runs >= 1 => rev' = rev]_vars
Dump == runs = MaxRuns => PrintT(ToJson([lay |-> lay, from |-> from, retexpr |-> retexpr, cfg |-> cfg, sig |-> sig, doc |-> doc, rev |-> rev]))
=====================================================================================
