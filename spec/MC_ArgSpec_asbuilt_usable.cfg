\* as built a written default is shadowed by required=True -> TLC must find the counterexample
SPECIFICATION Spec
CONSTANTS
  AsBuilt = TRUE
  Shard = 0
  NShards = 1
INVARIANT DefaultUsable
CHECK_DEADLOCK FALSE
