SPECIFICATION Spec
CONSTANTS
  AsBuilt = TRUE
INVARIANT Dump
CHECK_DEADLOCK FALSE
