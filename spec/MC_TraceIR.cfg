SPECIFICATION Spec
INVARIANT Consistent
CHECK_DEADLOCK FALSE
