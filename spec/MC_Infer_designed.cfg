\* the decision as designed: total, and the inverse of the emitters
SPECIFICATION Spec
CONSTANTS
  AsBuilt = FALSE
INVARIANT Total
INVARIANT EmitInverse
CHECK_DEADLOCK FALSE
