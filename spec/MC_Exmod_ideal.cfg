SPECIFICATION Spec
CONSTANTS
  Enabled = {}
  Shard = 0
  NShards = 1
INVARIANT AllFour
CHECK_DEADLOCK FALSE
