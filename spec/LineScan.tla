---------------------------------- MODULE LineScan ----------------------------------
(* Two character scanners of cdd/shared/pure_utils.py that the concrete-syntax layer (C09) and `remove_whitespace_comments` rest on:
     parse_comment_from_line(line)   the line without its trailing comment
     balanced_parentheses(s)         are the brackets outside string literals balanced?
   Both are small state machines over the characters of ONE line.  The alphabet is abstracted to what the scanners can tell apart:
     "q" single quote   "d" double quote   "h" hash   "b" backslash   "o" opening bracket   "c" closing bracket   "s" blank   "x" anything else

   Designed = Python's own reading of a line (no triple quotes): a state in {code, sq, dq}; inside a literal a backslash escapes the next
   character; a hash in `code` starts the comment; brackets count only in `code`.
   AsBuilt  = a transcription of the two functions:
     comment  quote PARITY counters instead of a state (a `'` inside "..." flips the single-quote parity), and an escape rule that
              only applies from column 4 on and also outside literals;
     balance  a quote state, escape recognised by looking one character BACK (so `\\'` -- an escaped backslash, then the closing
              quote -- is read as an escaped quote), and only COUNTS compared (")(" is balanced).
   Agreement of the two is an invariant TLC must REFUTE (shortest disagreeing lines are the counterexamples recorded in DESIGN.md 11.4);
   the conformance run binds AsBuilt to the real functions on every line of <= MaxLen characters, and Designed to CPython's tokenizer on
   every such line that tokenizes.                                                                                                       *)
EXTENDS Naturals, Sequences, FiniteSets, TLC, Json

CONSTANTS MaxLen, Shard, NShards

Alphabet == {"q", "d", "h", "b", "o", "c", "s", "x"}

\* ---- designed: the comment ----------------------------------------------------------------------------------------------
\* DScan(line, k, st, esc) -> the 1-based column of the comment's hash, or 0
RECURSIVE DScan(_, _, _, _)
DScan(line, k, st, esc) ==
  IF k > Len(line) THEN 0
  ELSE LET ch == line[k] IN
       IF st = "code" THEN (IF ch = "h" THEN k
                            ELSE DScan(line, k + 1, IF ch = "q" THEN "sq" ELSE IF ch = "d" THEN "dq" ELSE "code", FALSE))
       ELSE IF esc THEN DScan(line, k + 1, st, FALSE)
       ELSE IF ch = "b" THEN DScan(line, k + 1, st, TRUE)
       ELSE IF (st = "sq" /\ ch = "q") \/ (st = "dq" /\ ch = "d") THEN DScan(line, k + 1, "code", FALSE)
       ELSE DScan(line, k + 1, st, FALSE)
\* the cut keeps everything before the hash, minus the blanks in front of it
RECURSIVE RStripLen(_, _)
RStripLen(line, n) == IF n > 0 /\ line[n] = "s" THEN RStripLen(line, n - 1) ELSE n
Cut(line, hashcol) == IF hashcol = 0 THEN Len(line) ELSE IF hashcol = 1 THEN 0 ELSE RStripLen(line, hashcol - 1)
DesignedCut(line) == Cut(line, DScan(line, 1, "code", FALSE))
\* (the final state of the designed scan: a line that ends inside a literal does not tokenize)
RECURSIVE DEnd(_, _, _, _)
DEnd(line, k, st, esc) ==
  IF k > Len(line) THEN (IF esc THEN "open" ELSE st)
  ELSE LET ch == line[k] IN
       IF st = "code" THEN (IF ch = "h" THEN "code" ELSE DEnd(line, k + 1, IF ch = "q" THEN "sq" ELSE IF ch = "d" THEN "dq" ELSE "code", FALSE))
       ELSE IF esc THEN DEnd(line, k + 1, st, FALSE)
       ELSE IF ch = "b" THEN DEnd(line, k + 1, st, TRUE)
       ELSE IF (st = "sq" /\ ch = "q") \/ (st = "dq" /\ ch = "d") THEN DEnd(line, k + 1, "code", FALSE)
       ELSE DEnd(line, k + 1, st, FALSE)
WellFormed(line) == DEnd(line, 1, "code", FALSE) = "code"

\* ---- as built: the comment (parity counters; `col` is 0-based in the code, k = col + 1 here) -----------------------------------
RECURSIVE AScan(_, _, _, _)
AScan(line, k, single, double) ==
  IF k > Len(line) THEN 0
  ELSE LET ch == line[k] IN
       IF (k - 1) > 3 /\ line[k - 1] = "b" /\ ch \in {"d", "q", "h"} THEN AScan(line, k + 1, single, double)     \* "ignore the char"
       ELSE IF ch = "d" THEN AScan(line, k + 1, single, 1 - double)
       ELSE IF ch = "q" THEN AScan(line, k + 1, 1 - single, double)
       ELSE IF ch = "h" /\ single = 0 /\ double = 0 THEN k
       ELSE AScan(line, k + 1, single, double)
AsBuiltCut(line) == Cut(line, AScan(line, 1, 0, 0))

\* ---- brackets -------------------------------------------------------------------------------------------------------------------
\* designed: depth never negative, zero at the end, literals skipped (one bracket kind suffices for the abstraction)
RECURSIVE DBal(_, _, _, _, _)
DBal(s, k, st, esc, depth) ==
  IF k > Len(s) THEN depth = 0
  ELSE LET ch == s[k] IN
       IF st = "code" THEN
            (IF ch = "o" THEN DBal(s, k + 1, st, FALSE, depth + 1)
             ELSE IF ch = "c" THEN (IF depth = 0 THEN FALSE ELSE DBal(s, k + 1, st, FALSE, depth - 1))
             ELSE IF ch = "h" THEN depth = 0                                     \* the rest is a comment
             ELSE DBal(s, k + 1, IF ch = "q" THEN "sq" ELSE IF ch = "d" THEN "dq" ELSE "code", FALSE, depth))
       ELSE IF esc THEN DBal(s, k + 1, st, FALSE, depth)
       ELSE IF ch = "b" THEN DBal(s, k + 1, st, TRUE, depth)
       ELSE IF (st = "sq" /\ ch = "q") \/ (st = "dq" /\ ch = "d") THEN DBal(s, k + 1, "code", FALSE, depth)
       ELSE DBal(s, k + 1, st, FALSE, depth)
DesignedBalanced(s) == DBal(s, 1, "code", FALSE, 0)
\* as built: a quote mark (or none), "escaped" = the previous character is a backslash, opening and closing brackets COUNTED
RECURSIVE ABal(_, _, _, _, _)
ABal(s, k, mark, opens, closes) ==
  IF k > Len(s) THEN opens = closes
  ELSE LET ch == s[k] IN
       IF mark # "none" /\ ch = mark /\ (k = 1 \/ s[k - 1] # "b") THEN ABal(s, k + 1, "none", opens, closes)
       ELSE IF mark = "none" THEN
            (IF ch \in {"q", "d"} THEN ABal(s, k + 1, ch, opens, closes)
             ELSE IF ch = "o" THEN ABal(s, k + 1, mark, opens + 1, closes)
             ELSE IF ch = "c" THEN ABal(s, k + 1, mark, opens, closes + 1)
             ELSE ABal(s, k + 1, mark, opens, closes))
       ELSE ABal(s, k + 1, mark, opens, closes)
AsBuiltBalanced(s) == ABal(s, 1, "none", 0, 0)

\* ---- the machine: one line per behaviour ------------------------------------------------------------------------------------------
Lines == UNION {[1..n -> Alphabet] : n \in 0..MaxLen}
VARIABLES line, pc
vars == <<line, pc>>
\* (sharded by the line's first character: the set of lines is too large to turn into one sequence)
AlphaSeq == <<"q", "d", "h", "b", "o", "c", "s", "x">>
ShardOf(l) == IF Len(l) = 0 THEN 0 ELSE (CHOOSE k \in 1..8 : AlphaSeq[k] = l[1]) % NShards
Init == line \in {l \in Lines : ShardOf(l) = Shard} /\ pc = "scan"
Scan == pc = "scan" /\ pc' = "done" /\ UNCHANGED line
Spec == Init /\ [][Scan]_vars

\* to be REFUTED (on well-formed lines, where Python itself has an opinion)
CommentAgrees == WellFormed(line) => AsBuiltCut(line) = DesignedCut(line)
BalanceAgrees == WellFormed(line) => AsBuiltBalanced(line) = DesignedBalanced(line)
\* ... and the same without the comment effect, and without the order effect: what else differs?
HasHash(l) == \E k \in 1..Len(l) : l[k] = "h"
BalanceAgreesNoComment == (WellFormed(line) /\ ~HasHash(line)) => AsBuiltBalanced(line) = DesignedBalanced(line)
RECURSIVE NeverNegative(_, _, _)
NeverNegative(l, k, d) == IF k > Len(l) THEN TRUE ELSE IF l[k] = "o" THEN NeverNegative(l, k + 1, d + 1)
                          ELSE IF l[k] = "c" THEN (d > 0 /\ NeverNegative(l, k + 1, d - 1)) ELSE NeverNegative(l, k + 1, d)
BalanceAgreesOrdered == (WellFormed(line) /\ ~HasHash(line) /\ NeverNegative(line, 1, 0)) => AsBuiltBalanced(line) = DesignedBalanced(line)
Dump == pc = "done" => PrintT(ToJson([line |-> line, wf |-> WellFormed(line), acut |-> AsBuiltCut(line), dcut |-> DesignedCut(line),
                                       abal |-> AsBuiltBalanced(line), dbal |-> DesignedBalanced(line)]))
=====================================================================================
