SPECIFICATION Spec
CONSTANTS
  Enabled = {}
  Shard = 0
  NShards = 1
INVARIANT NoClobber
INVARIANT ExportsOrDeviation
INVARIANT Dump
CHECK_DEADLOCK FALSE
