------------------------------------ MODULE Sql ------------------------------------
(* C05: SQLAlchemy class / Table / hybrid forms round-trip and agree.

   cfg = [fmt (variant), style, force_pk].  Norm is what the statement demands of the re-parsed columns, under the
   normalisations that "exactly one primary key in every emission" forces: EnsurePK (when no column carries the [PK]
   marker a synthetic integer `id` primary key is appended) and dict -> Optional[dict] (a JSON column is nullable).
   Agree: the three variants parse to the same columns.  OnePK: exactly one primary key in every artefact.          *)
EXTENDS CddTypes, TLC, Json

CONSTANTS MaxParams, Enabled, Shard, NShards

Variants == <<"sqlalchemy", "sqlalchemy_table", "sqlalchemy_hybrid">>
Styles == {"rest", "google", "numpydoc"}
SqlTyps == {"int", "float", "str", "bool", "dict", "Opt_int", "Opt_float", "Opt_str", "Opt_bool", "Opt_dict", "Lit"}
\* Optional[..] without non-None default
\* nm = "cand": the column's NAME makes it a primary-key candidate (`*_name`, `*_id`, `id_*`), which EnsurePK may promote
SqlParams == {p \in [typ : SqlTyps, def : Defs \ {"code", "str_empty"}, doc : {"plain", "pk", "fk"}, nm : {"plain", "cand"}] :
                 Compat(p.typ, p.def) /\ (IsOpt(p.typ) => p.def \in {"absent", "None"}) /\ (p.nm = "cand" => p.doc = "plain")}
SmallParams == {p \in SqlParams : p.typ \in {"int", "Opt_str", "Lit"} /\ p.def \in {"absent", "None", "int_pos"}}
NoRet0 == 0
AtMostOnePK(ps) == Cardinality({k \in 1..Len(ps) : ps[k].doc = "pk"}) <= 1
ParamSeqs == {ps \in {<<p>> : p \in SqlParams} \cup (IF MaxParams >= 2 THEN {<<p, r>> : p \in SqlParams, r \in SmallParams} ELSE {}) :
                 AtMostOnePK(ps)}
NoRet == [typ |-> "none", def |-> "absent", doc |-> "absent"]

\* ---- the artefact: one Column per parameter --------------------------------------------------------------------
HasPK(ps) == \E k \in 1..Len(ps) : ps[k].doc = "pk"
Cands(ps) == {k \in 1..Len(ps) : ps[k].nm = "cand"}
\* ensure_has_primary_key: a [PK] marker wins; else, unless force_pk_id, the single name-based candidate is promoted;
\* else a synthetic integer `id` column is appended
Promote(ps, force) == IF ~HasPK(ps) /\ ~force /\ Cardinality(Cands(ps)) = 1
                      THEN [k \in 1..Len(ps) |-> IF k \in Cands(ps) THEN [ps[k] EXCEPT !.doc = "pk"] ELSE ps[k]]
                      ELSE ps
ColType(t) == CASE Base(t) = "int" -> "Integer" [] Base(t) = "float" -> "Float" [] Base(t) = "str" -> "String"
                [] Base(t) = "bool" -> "Boolean" [] Base(t) = "dict" -> "JSON" [] Base(t) = "Lit" -> "Enum"
EmitCol(p) == [coltype |-> ColType(p.typ), pk |-> p.doc = "pk", fk |-> p.doc = "fk", nm |-> p.nm,
               nullable |-> IsOpt(p.typ) \/ p.typ = "dict", default |-> p.def, comment |-> p.doc]
SyntheticId == [coltype |-> "Integer", pk |-> TRUE, fk |-> FALSE, nm |-> "plain", nullable |-> FALSE, default |-> "absent", comment |-> "synthetic"]
Emit(ps0, force) == LET ps == Promote(ps0, force) IN
                     [k \in 1..Len(ps) |-> EmitCol(ps[k])] \o (IF HasPK(ps) THEN <<>> ELSE <<SyntheticId>>)
OnePK(cols) == Cardinality({k \in 1..Len(cols) : cols[k].pk}) = 1

\* ---- parse: Column -> entry ---------------------------------------------------------------------------------------
TypeBack(c, orig) == LET b == CASE c.coltype = "Integer" -> "int" [] c.coltype = "Float" -> "float" [] c.coltype = "String" -> "str"
                                  [] c.coltype = "Boolean" -> "bool" [] c.coltype = "JSON" -> "dict" [] c.coltype = "Enum" -> "Lit"
                     IN IF c.nullable THEN (IF b = "Lit" THEN "Opt_Lit" ELSE OptOf(b)) ELSE b
ParseCol(c, orig) == [present |-> TRUE, wild |-> FALSE, name |-> IF c.comment = "synthetic" THEN "id" ELSE "", nm |-> c.nm,
                      typs |-> {TypeBack(c, orig)}, def |-> c.default,
                      doc |-> IF c.comment = "synthetic" THEN "pkonly" ELSE c.comment]
Gone == [present |-> FALSE, wild |-> FALSE, name |-> "", nm |-> "plain", typs |-> {}, def |-> "absent", doc |-> "absent"]
Norm(cfg, i) == LET cols == Emit(i.params, cfg.force_pk) IN
                [raises |-> "no", wild |-> FALSE, doc |-> "any",
                 params |-> [k \in 1..Len(cols) |-> ParseCol(cols[k], IF k <= Len(i.params) THEN i.params[k] ELSE NoRet)],
                 ret |-> Gone]

\* ---- named deviations ------------------------------------------------------------------------------------------------
AsBuilt(en, cfg, i) ==
  LET hyb == "sql_hybrid_unparseable" \in en /\ cfg.fmt = "sqlalchemy_hybrid"
      n == Norm(cfg, i)
  IN [out |-> IF hyb THEN [n EXCEPT !.raises = "AssertionError"] ELSE n,
      fired |-> IF hyb THEN {"sql_hybrid_unparseable"} ELSE {}]

VARIABLES cfg, i, pc, out, fired, cols
vars == <<cfg, i, pc, out, fired, cols>>
RECURSIVE SetToSeq(_)
SetToSeq(S) == IF S = {} THEN <<>> ELSE LET x == CHOOSE x \in S : TRUE IN <<x>> \o SetToSeq(S \ {x})
Cfgs == [fmt : {Variants[k] : k \in 1..3}, style : Styles, force_pk : BOOLEAN]
CfgSeq == SetToSeq(Cfgs)
Init == /\ cfg \in {CfgSeq[k] : k \in {j \in 1..Len(CfgSeq) : j % NShards = Shard}}
        /\ \E ps \in ParamSeqs : i = [doc |-> "one", params |-> ps, ret |-> NoRet]
        /\ pc = "emit" /\ out = "none" /\ fired = {} /\ cols = <<>>
DoEmit == pc = "emit" /\ cols' = Emit(i.params, cfg.force_pk) /\ pc' = "parse" /\ UNCHANGED <<cfg, i, out, fired>>
DoParse == /\ pc = "parse"
           /\ LET ab == AsBuilt(Enabled, cfg, i) IN out' = ab.out /\ fired' = ab.fired
           /\ pc' = "done" /\ UNCHANGED <<cfg, i, cols>>
Next == DoEmit \/ DoParse
Spec == Init /\ [][Next]_vars

ExactlyOnePK == pc \in {"parse", "done"} => OnePK(cols)
RoundTrip == pc = "done" => out = Norm(cfg, i)
RoundTripOrDeviation == pc = "done" => (out = Norm(cfg, i) \/ fired # {})
\* Agree: Norm does not depend on the variant
Agree == pc = "done" => \A v \in {Variants[k] : k \in 1..3} : Norm([cfg EXCEPT !.fmt = v], i) = Norm(cfg, i)

JP(e) == [present |-> e.present, wild |-> e.wild, name |-> e.name, nm |-> e.nm, typs |-> SetToSeq(e.typs), def |-> e.def, doc |-> e.doc]
JI(x) == [raises |-> x.raises, wild |-> x.wild, doc |-> x.doc, params |-> [k \in 1..Len(x.params) |-> JP(x.params[k])], ret |-> JP(x.ret)]
Dump == pc = "done" => PrintT(ToJson([cfg |-> cfg, i |-> i, exp |-> JI(Norm(cfg, i)), asb |-> JI(out), devs |-> SetToSeq(fired)]))
=====================================================================================
