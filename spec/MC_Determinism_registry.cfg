\* a table lookup that misses leaves an entry behind: a union column of the same type is written differently afterwards
\* -> TLC must find the counterexample
SPECIFICATION Spec
CONSTANTS
  MaxSig = 1
  MaxCalls = 2
  OrderedMerge = TRUE
  ReadsLeak = FALSE
  OrderedScan = TRUE
  TableCalls = TRUE
  Registers = TRUE
  Aliases = FALSE
INVARIANT Functional
CHECK_DEADLOCK FALSE
