SPECIFICATION Spec
CONSTANTS
  Mode = "entries"
  Shard = 0
  NShards = 1
INVARIANT Dump
CHECK_DEADLOCK FALSE
