\* the command line as designed: every property holds
SPECIFICATION Spec
CONSTANTS
  AsBuilt = FALSE
  Shard = 0
  NShards = 1
INVARIANT ValidateBeforeEffect
INVARIANT OneCall
INVARIANT Total
INVARIANT ExpressibleInv
CHECK_DEADLOCK FALSE
