SPECIFICATION Spec
CONSTANTS
  MaxParams = 1
  Enabled = {}
  Shard = 0
  NShards = 1
INVARIANT ExactlyOnePK
INVARIANT RoundTripOrDeviation
INVARIANT Dump
CHECK_DEADLOCK FALSE
