---------------------------------- MODULE Imports ----------------------------------
(* CPython's import machine over the package's own top-level statements (C18).

   The constants Mods / StartSeq / Parent / Last / Prog come from ImportsData.tla, which the
   harness regenerates from /repo's working tree on every run (binding X).  A behaviour is
   one fresh interpreter executing `import m1 [; import m2]`:

     status[m]  "absent" | "loading" | "done"        -- sys.modules membership / initialisation
     bound[m]   names bound in m's namespace so far   -- partially initialised modules are visible
     stack      frames [m, pc] of module bodies being executed
     failed     "no" | the import error raised (the interpreter exits non-zero)

   One Exec step = one top-level statement of the module on top of the stack (or the start
   of a nested module load).  The two real failure modes of circular imports are modelled:
   `from X import n` with n not yet bound in a partially initialised X, and a module-level
   attribute chain cdd.a.b.attr where the submodule attribute b is set on its parent only
   when b's body has *finished*.                                                             *)
EXTENDS Naturals, Sequences, FiniteSets, TLC, Json, ImportsData

CONSTANTS Mode,        \* "singles" | "pairs"
          Shard, NShards

VARIABLES start, todo, status, bound, stack, failed
vars == <<start, todo, status, bound, stack, failed>>

ToSet(s) == {s[i] : i \in 1..Len(s)}
NStart == Len(StartSeq)

Top == stack[Len(stack)]
Pop == SubSeq(stack, 1, Len(stack) - 1)
SetPc(pc) == [stack EXCEPT ![Len(stack)] = [m |-> @.m, pc |-> pc]]

Begin(x) == /\ status' = [status EXCEPT ![x] = "loading"]
            /\ stack' = Append(stack, [m |-> x, pc |-> 1])

FirstAbsent(pre) == LET idx == {i \in 1..Len(pre) : status[pre[i]] = "absent"}
                    IN IF idx = {} THEN "" ELSE pre[CHOOSE i \in idx : \A j \in idx : i <= j]

Starts == IF Mode = "singles"
          THEN {<<StartSeq[i]>> : i \in {j \in 1..NStart : j % NShards = Shard}}
          ELSE {<<StartSeq[i], StartSeq[j]>> : i \in {k \in 1..NStart : k % NShards = Shard}, j \in 1..NStart}

Init == /\ start \in Starts
        /\ todo = start
        /\ status = [m \in Mods |-> "absent"]
        /\ bound = [m \in Mods |-> {}]
        /\ stack = <<>>
        /\ failed = "no"

\* `import m` typed at the prompt: load each absent dotted prefix in turn, then the next start module
StartNext == /\ stack = <<>> /\ todo # <<>> /\ failed = "no"
             /\ LET fa == FirstAbsent(Pre[Head(todo)])
                IN IF fa # "" THEN Begin(fa) /\ UNCHANGED <<todo, bound, failed>>
                   ELSE /\ todo' = Tail(todo) /\ UNCHANGED <<status, bound, stack, failed>>
             /\ UNCHANGED start

RECURSIVE Walk(_, _, _)
Walk(c, cur, i) == IF i > Len(c) THEN TRUE
                   ELSE IF c[i] \notin bound[cur] THEN FALSE
                   ELSE IF (cur \o "." \o c[i]) \in Mods THEN Walk(c, cur \o "." \o c[i], i + 1) ELSE TRUE

Exec == /\ stack # <<>> /\ failed = "no"
        /\ LET f == Top  m == f.m  pc == f.pc IN
           IF pc > Len(Prog[m])
           THEN /\ status' = [status EXCEPT ![m] = "done"]     \* the submodule attribute appears on the parent only now
                /\ bound' = IF Parent[m] = "" THEN bound ELSE [bound EXCEPT ![Parent[m]] = @ \cup {Last[m]}]
                /\ stack' = Pop /\ UNCHANGED <<todo, failed>>
           ELSE LET st == Prog[m][pc] IN
             CASE st.k = "bind" -> /\ bound' = [bound EXCEPT ![m] = @ \cup ToSet(st.binds)]
                                   /\ stack' = SetPc(pc + 1) /\ UNCHANGED <<todo, status, failed>>
               [] st.k = "import" ->
                    LET fa == FirstAbsent(st.pre) IN
                    IF fa # "" THEN /\ Begin(fa) /\ UNCHANGED <<todo, bound, failed>>   \* a partial module is returned as it is
                    ELSE /\ bound' = [bound EXCEPT ![m] = @ \cup ToSet(st.binds)]
                         /\ stack' = SetPc(pc + 1) /\ UNCHANGED <<todo, status, failed>>
               [] st.k = "from" ->
                    LET fa == FirstAbsent(st.pre) IN
                    IF fa # "" THEN /\ Begin(fa) /\ UNCHANGED <<todo, bound, failed>>
                    ELSE LET X == st.mod
                             missing   == {i \in 1..Len(st.names) : st.names[i] \notin bound[X]}
                             subAbsent == {i \in missing : (X \o "." \o st.names[i]) \in Mods /\ status[X \o "." \o st.names[i]] = "absent"}
                             bad       == {i \in missing : (X \o "." \o st.names[i]) \notin Mods}
                         IN IF bad # {} THEN /\ failed' = "cannot import name" /\ UNCHANGED <<todo, status, bound, stack>>
                            ELSE IF subAbsent # {}
                                 THEN /\ Begin(X \o "." \o st.names[CHOOSE i \in subAbsent : \A j \in subAbsent : i <= j])
                                      /\ UNCHANGED <<todo, bound, failed>>
                            ELSE /\ bound' = [bound EXCEPT ![m] = @ \cup ToSet(st.binds)]   \* IMPORT_FROM falls back to sys.modules
                                 /\ stack' = SetPc(pc + 1) /\ UNCHANGED <<todo, status, failed>>
               [] st.k = "use" ->
                    IF st.chain[1] \in bound[m] /\ Walk(st.chain, st.chain[1], 2)
                    THEN /\ stack' = SetPc(pc + 1) /\ UNCHANGED <<todo, status, bound, failed>>
                    ELSE /\ failed' = "attribute" /\ UNCHANGED <<todo, status, bound, stack>>
        /\ UNCHANGED start

Next == StartNext \/ Exec
Spec == Init /\ [][Next]_vars

-----------------------------------------------------------------------------------------
Finished == (stack = <<>> /\ todo = <<>>) \/ failed # "no"

\* the property: no start (single or ordered pair) ever fails
NoFailure == failed = "no"

\* sanity of the machine itself
TypeOK == /\ \A i \in 1..Len(stack) : status[stack[i].m] = "loading"
          /\ \A m \in Mods : status[m] = "done" => \A i \in 1..Len(stack) : stack[i].m # m

\* terminal states leave TLC as JSON; the harness joins (m1,m2) with (m2,m1) for SameNames and
\* compares every verdict with a real fresh interpreter
Where == IF stack = <<>> THEN [m |-> "", pc |-> 0] ELSE Top
Dump == Finished =>
          PrintT(ToJson([start |-> start, failed |-> failed, at |-> Where,
                         names |-> [i \in 1..Len(start) |-> Cardinality(bound[start[i]])],
                         loaded |-> Cardinality({m \in Mods : status[m] = "done"})]))
=========================================================================================
