\* non-vacuity of the derivation: with `required` as designed the composition is NOT what FormatRules states for the code as built
\* -> TLC must find the counterexample
SPECIFICATION Spec
CONSTANTS
  AsBuilt = FALSE
  Shard = 0
  NShards = 1
INVARIANT Derived
CHECK_DEADLOCK FALSE
