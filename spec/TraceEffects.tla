---------------------------------- MODULE TraceEffects ----------------------------------
(* (V) Audit-event traces recorded from the real code (sys.addaudithook) are validated against the Effects monitor.
   TRACE_FILE: a sequence of [tid, api, events : Seq([k, a])].  One state per consumed event; a trace is rejected at
   the first event the monitor does not allow (printed with its index), otherwise consumed to its end.              *)
EXTENDS Naturals, Sequences, TLC, Json, IOUtils

Traces == JsonDeserialize(IOEnv.TRACE_FILE)
N == Len(Traces)
VARIABLES t, l, bad
\* the monitor's rules (Effects!Allowed); Effects.tla has its own variables, so the operator is instantiated by name
E == INSTANCE Effects WITH api <- "parse", slot <- "default", payload <- "benign", todo <- <<>>, bad <- bad
vars == <<t, l, bad>>
Init == t \in 1..N /\ l = 1 /\ bad = FALSE
Step == /\ ~bad /\ l <= Len(Traces[t].events)
        /\ IF E!Allowed(Traces[t].api, Traces[t].events[l])
           THEN l' = l + 1 /\ UNCHANGED bad
           ELSE /\ bad' = TRUE /\ UNCHANGED l
                /\ PrintT(ToJson([reject |-> Traces[t].tid, at |-> l, event |-> Traces[t].events[l]]))
        /\ UNCHANGED t
Spec == Init /\ [][Step]_vars
=====================================================================================
