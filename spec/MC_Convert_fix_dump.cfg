SPECIFICATION Spec
CONSTANTS
  Mode = "fix"
  MaxLen = 3
  MaxParams = 1
  Enabled = {}
  FixFmts = {"class", "pydantic", "function", "argparse", "docstring"}
  Shard = 0
  NShards = 1
PROPERTY Fix
INVARIANT Dump
CHECK_DEADLOCK FALSE
