---------------------------------- MODULE TraceDeterminism ----------------------------------
(* (V) Observations recorded from real interpreter processes (different PYTHONHASHSEED, different call
   histories, repeated calls) are merged into one sequence of events  [api, input, sha, proc]  -- the order is
   irrelevant by construction (no wall clock).  The spec consumes them one by one keeping `seen[api, input]`;
   an event is accepted iff that key is unset or holds the same output hash (Determinism!Functional).
   Rejected events are printed; acceptance = all events consumed.                                          *)
EXTENDS Naturals, Sequences, TLC, Json, IOUtils

Events == JsonDeserialize(IOEnv.TRACE_FILE)
N == Len(Events)
VARIABLES l, seen, rejected
vars == <<l, seen, rejected>>
Key(e) == <<e.api, e.input>>
Init == l = 1 /\ seen = <<>> /\ rejected = 0
Lookup(k) == LET idx == {j \in 1..Len(seen) : seen[j].k = k} IN IF idx = {} THEN "" ELSE seen[CHOOSE j \in idx : TRUE].sha
Step == /\ l <= N
        /\ LET e == Events[l] prev == Lookup(Key(e)) IN
             IF prev = "" THEN seen' = Append(seen, [k |-> Key(e), sha |-> e.sha]) /\ UNCHANGED rejected
             ELSE IF prev = e.sha THEN UNCHANGED <<seen, rejected>>
             ELSE /\ PrintT(ToJson([reject |-> e.api, input |-> e.input, proc |-> e.proc]))
                  /\ rejected' = rejected + 1 /\ UNCHANGED seen
        /\ l' = l + 1
Spec == Init /\ [][Step]_vars
Consumed == TLCGet("stats").diameter - 1 = N
=====================================================================================
