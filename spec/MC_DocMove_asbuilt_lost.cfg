\* as built, TLC must find the lost return type: a function returning an expression, its return type only in the signature, --no-type-annotations
SPECIFICATION Spec
CONSTANTS
  AsBuilt = TRUE
  MaxRuns = 3
  Shard = 0
  NShards = 1
PROPERTY NoTypeLost
CHECK_DEADLOCK FALSE
