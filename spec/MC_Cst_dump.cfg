\* same machine, terminal states printed as JSON (sharded, one worker per shard) for the replay
SPECIFICATION Spec
CONSTANTS
  MaxTok = 3
  Shard = 0
  NShards = 1
INVARIANT Conservation
INVARIANT Lossless
INVARIANT NodesLossless
INVARIANT Tiling
INVARIANT Dump
CHECK_DEADLOCK FALSE
