---------------------------------- MODULE FormatRules ----------------------------------
(* class / pydantic / function / argparse round trips as pure operators: Norm = what C02 demands, AsBuilt = Norm with
   the named deviations applied.  Used by Formats.tla (C02) and Convert.tla (C03, C08).                              *)
EXTENDS CddTypes

NoRet == [typ |-> "none", def |-> "absent", doc |-> "absent"]

\* ---- what the statement demands -----------------------------------------------------------------
\* an untyped entry may come back with the type inferred from its default (a normalisation C08 names)
AccTyps(p) == IF p.typ # "absent" THEN {p.typ}
              ELSE IF p.def = "None" THEN {"absent", "Opt_Any"} ELSE {"absent", TypOfDef(p.def)}
NormP(cfg, p) == [present |-> TRUE, wild |-> FALSE, typs |-> AccTyps(p),
                  def |-> IF cfg.fmt = "function" /\ p.def = "absent" THEN "None" ELSE p.def,
                  doc |-> p.doc]
Gone == [present |-> FALSE, wild |-> FALSE, typs |-> {}, def |-> "absent", doc |-> "absent"]
NormR(cfg, r) == IF r = NoRet THEN Gone
                 ELSE IF cfg.fmt = "argparse" /\ r.def = "absent" THEN Gone
                 ELSE [present |-> TRUE, wild |-> FALSE, typs |-> AccTyps(r), def |-> r.def, doc |-> r.doc]
Norm(cfg, i) == [raises |-> "no", wild |-> FALSE, doc |-> i.doc,
                 params |-> [k \in 1..Len(i.params) |-> NormP(cfg, i.params[k])],
                 ret |-> NormR(cfg, i.ret)]

\* ---- named deviations of the as-built code ------------------------------------------------------------
Devs == {                                      \* (repaired, 3d7b806 + 9021f5d: class/pydantic/function with a NumPy docstring AND a return entry: the return section was misread)
         "google_return_mangled",              \* wild : function with a Google docstring and a return entry (class/pydantic: repaired, 3d7b806)
         "class_dict_no_default_raises",       \* exact: class/pydantic emit of a `dict` parameter without default raises TypeError
         "str_default_with_dot_truncated",     \* wild : emit_default_doc + a string default containing a full stop: cut at it when read back from the docstring (function: SyntaxError)
                                               \* (repaired, 2e64952: emit_default_doc + empty-string default left a dangling 'Defaults to' in the description)
                                               \* (repaired, 0fc255c: function + emit_default_doc: a None default came back as the string '(None)', annotation Optional[str])
         "function_neg_default_nonscalar_ast", \* wild (entry): negative default under a non-scalar annotation comes back as an AST node
         "argparse_required_gets_zero_default",\* exact: argparse gives a default-less int/float/str/Literal/List parameter its zero value
         "argparse_none_default_dropped",      \* exact: argparse drops a None default
         "argparse_bool_no_default_optional",  \* exact: argparse turns a default-less bool into Optional[bool]
         "return_literal_default_raises",      \* exact: argparse emit of a return entry whose default is a non-string literal raises TypeError (the function emitter did too: repaired)
         "function_return_default_mangled",    \* wild : function: a return default given as a code-quoted expression loses the return type (None: repaired with 0fc255c)
         "argparse_return_expr_default_requoted", \* exact: argparse (ReST): a code-quoted return default (expression, None) comes back as the repr of that string (quotes inside the string)
         "argparse_gn_return_default_raises",  \* exact: argparse with a Google / NumPy docstring and a return default: the parser raises (KeyError 'typ' / TypeError)
         "argparse_type_collapsed"}            \* exact: argparse collapses Union/dotted/dict types (Union[int,str]->int|str, np.ndarray->str, dict->Optional[dict]=None, Optional[dict]->Optional[str])

Embedded(cfg) == cfg.fmt \in {"class", "pydantic", "function"}
ZeroOf(t) == CASE t = "int" -> "int_zero" [] t = "float" -> "zero_float" [] OTHER -> "str_empty"

\* per-entry as-built rules; returns <<entry, fired>>
AsBuiltP(en, cfg, p) ==
  LET e0 == NormP(cfg, p)
      on(d) == d \in en
      \* class / pydantic / function
      r1 == <<e0, {}>>
      r1b == r1
      r2 == r1b
      r3 == IF on("function_neg_default_nonscalar_ast") /\ cfg.fmt = "function" /\ p.typ = "Union_int_str" /\ p.def = "int_neg"
            THEN <<[r2[1] EXCEPT !.wild = TRUE], r2[2] \cup {"function_neg_default_nonscalar_ast"}>> ELSE r2
      \* argparse
      a1 == IF on("argparse_type_collapsed") /\ cfg.fmt = "argparse" /\ p.typ \in {"Union_int_str", "Dotted", "dict", "Opt_dict"}
            THEN <<[r3[1] EXCEPT !.typs = {CASE p.typ = "Union_int_str" -> (IF p.def \in IntDefs THEN "int" ELSE "str")
                                              [] p.typ = "Dotted" -> "str"
                                              [] p.typ = "dict" -> "Opt_dict"
                                              [] p.typ = "Opt_dict" -> "Opt_str"},
                              !.def = IF p.def # "absent" THEN p.def
                                      ELSE CASE p.typ = "dict" -> "None" [] p.typ = "Opt_dict" -> "absent" [] OTHER -> "str_empty"],
                   r3[2] \cup {"argparse_type_collapsed"}>> ELSE r3
      a2 == IF on("argparse_required_gets_zero_default") /\ cfg.fmt = "argparse" /\ p.def = "absent"
               /\ p.typ \in {"int", "float", "str", "Lit", "List_str"}
            THEN <<[a1[1] EXCEPT !.def = ZeroOf(p.typ)], a1[2] \cup {"argparse_required_gets_zero_default"}>> ELSE a1
      a3 == IF on("argparse_none_default_dropped") /\ cfg.fmt = "argparse" /\ p.def = "None"
            THEN <<[a2[1] EXCEPT !.def = "absent"], a2[2] \cup {"argparse_none_default_dropped"}>> ELSE a2
      a4 == IF on("argparse_bool_no_default_optional") /\ cfg.fmt = "argparse" /\ p.typ = "bool" /\ p.def = "absent"
            THEN <<[a3[1] EXCEPT !.typs = {"Opt_bool"}], a3[2] \cup {"argparse_bool_no_default_optional"}>> ELSE a3
  IN a4

AsBuilt(en, cfg, i) ==
  LET n == Len(i.params)
      per == [k \in 1..n |-> AsBuiltP(en, cfg, i.params[k])]
      \* (until the de-indenting repair EVERY embedded NumPy docstring was unreadable; what is left needs a return entry)
      wildNp == FALSE
      wildDot == "str_default_with_dot_truncated" \in en /\ Embedded(cfg) /\ cfg.edd /\ \E k \in 1..n : i.params[k].def = "str_dot" /\ i.params[k].typ = "absent"   \* (typed: repaired)
      wildGr == "google_return_mangled" \in en /\ cfg.style = "google" /\ cfg.fmt = "function" /\ i.ret # NoRet
      dictRaise == "class_dict_no_default_raises" \in en /\ cfg.fmt \in {"class", "pydantic"}
                   /\ \E k \in 1..n : i.params[k].typ = "dict" /\ i.params[k].def = "absent"
      hasRetDef == i.ret # NoRet /\ i.ret.def # "absent"
      retLit == "return_literal_default_raises" \in en /\ cfg.fmt = "argparse" /\ hasRetDef /\ i.ret.def = "int_pos"
      fnRet == "function_return_default_mangled" \in en /\ cfg.fmt = "function" /\ hasRetDef /\ i.ret.def \in {"expr"}
      apGn == "argparse_gn_return_default_raises" \in en /\ cfg.fmt = "argparse" /\ cfg.style \in {"google", "numpydoc"} /\ hasRetDef /\ ~retLit
      apRet == "argparse_return_expr_default_requoted" \in en /\ cfg.fmt = "argparse" /\ cfg.style = "rest" /\ hasRetDef /\ i.ret.def \in {"expr", "None"}
      r0 == NormR(cfg, i.ret)
      ret == IF apRet THEN [r0 EXCEPT !.def = IF i.ret.def = "expr" THEN "expr_requoted" ELSE "none_requoted"] ELSE r0
      fired == UNION {per[k][2] : k \in 1..n}
               \cup (IF retLit THEN {"return_literal_default_raises"} ELSE {})
               \cup (IF fnRet THEN {"function_return_default_mangled"} ELSE {})
               \cup (IF apRet THEN {"argparse_return_expr_default_requoted"} ELSE {})
               \cup (IF apGn THEN {"argparse_gn_return_default_raises"} ELSE {})
               \cup (IF wildGr THEN {"google_return_mangled"} ELSE {})
               \cup (IF wildDot THEN {"str_default_with_dot_truncated"} ELSE {})
               \cup (IF dictRaise THEN {"class_dict_no_default_raises"} ELSE {})
  IN [out |-> [raises |-> IF dictRaise THEN "TypeError"
                          ELSE IF retLit THEN "TypeError"
                          ELSE IF apGn THEN (IF cfg.style = "google" THEN "KeyError" ELSE "StopIteration") ELSE "no",
               wild |-> wildNp \/ wildGr \/ wildDot \/ fnRet, doc |-> i.doc,
               params |-> [k \in 1..n |-> per[k][1]],
               ret |-> ret],
      fired |-> fired]

=====================================================================================
