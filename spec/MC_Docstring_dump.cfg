\* as-built rules, every behaviour dumped for the replay
SPECIFICATION Spec
CONSTANTS
  MaxParams = 1
  Reduced = TRUE
  Enabled = {}
  Shard = 0
  NShards = 1
INVARIANT RoundTripOrDeviation
INVARIANT Dump
CHECK_DEADLOCK FALSE
