\* doctrans as designed: types are never lost, end up where asked, and a second run changes nothing
SPECIFICATION Spec
CONSTANTS
  AsBuilt = FALSE
  MaxRuns = 3
  Shard = 0
  NShards = 1
PROPERTY NoTypeLost
PROPERTY Idempotent
INVARIANT Moved
INVARIANT OnePlace
CHECK_DEADLOCK FALSE
