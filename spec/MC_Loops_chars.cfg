\* every character sequence of <= MaxLen over the 8 character classes, every loop, every start index
SPECIFICATION Spec
CONSTANTS
  Mode = "chars"
  MaxLen = 4
  MaxTok = 0
  PumpK = 0
  Advance = TRUE
  Shard = 0
  NShards = 1
PROPERTY Progress
PROPERTY Termination
INVARIANT Linear
CHECK_DEADLOCK FALSE
