SPECIFICATION Spec
CONSTANTS
  AsBuilt = TRUE
  MaxOcc = 2
  Shard = 0
  NShards = 1
INVARIANT Total
CHECK_DEADLOCK FALSE
