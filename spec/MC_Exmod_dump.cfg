SPECIFICATION Spec
CONSTANTS
  Enabled = {}
  Shard = 0
  NShards = 1
INVARIANT AllFourOrDeviation
INVARIANT Dump
CHECK_DEADLOCK FALSE
