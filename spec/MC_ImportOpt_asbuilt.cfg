\* as built: everything but coverage
SPECIFICATION Spec
CONSTANTS
  AsBuilt = TRUE
  MaxLen = 2
  Shard = 0
  NShards = 1
INVARIANT Sound
INVARIANT NoDup
INVARIANT Idempotent
INVARIANT Sorted
CHECK_DEADLOCK FALSE
