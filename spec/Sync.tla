------------------------------------ MODULE Sync ------------------------------------
(* C12: sync makes every target equivalent to the truth, then is a no-op.

   Three files: cls (a class), fn (a method inside a class), ap (an argparse function).  A file is
       "missing" | "empty" | [iface, around, rev]     iface in {"A", "B", "C"} (three mutually different interfaces),
       around in {"none", "before", "after", "both"} (unrelated code before / after the target), rev = number of rewrites.
   Sync(truth) requires the truth file to hold a target; every other listed file gets the truth's interface (created if
   missing or empty), the surrounding code stays, rev is bumped iff the bytes change.
   Properties: AllEquivalent, TruthUnchanged, AroundUnchanged, SecondRunNoop (an action property).                 *)
EXTENDS Naturals, Sequences, FiniteSets, TLC, Json

CONSTANTS MaxRuns, Enabled, Shard, NShards

Kinds == {"cls", "fn", "ap"}
KindSeq == <<"cls", "fn", "ap">>
\* A2 = A plus one trailing, undescribed parameter: "different" includes "one is a strict prefix of the other"
\* D = a required (default-less) parameter of a non-builtin type, a defaulted scalar and an Optional[str] with a concrete default
Ifaces == {"A", "A2", "B", "C", "D"}
\* "mentions": code before and after that NAMES the targets without being them -- `__all__ = ["ConfigClass", ...]`, a string, a registry
\* dict, a call -- (the rewrite finds its target by name and location; nothing that merely carries the name may be taken for it)
\* "moddoc": unrelated code plus a module docstring written on ONE line (class file only; see RewrapsDoc)
Arounds == {"none", "both", "mentions", "moddoc"}
Present == [iface : Ifaces, around : Arounds, rev : {0}]
FileStates == {"missing", "empty"} \cup {"present"}           \* abstract tag; the record lives in `files`
Missing == [iface |-> "-", around |-> "missing", rev |-> 0]
Empty == [iface |-> "-", around |-> "empty", rev |-> 0]
IsPresent(f) == f.iface # "-"
InitFiles == {fs \in [Kinds -> Present \cup {Missing, Empty}] :
                /\ \A k \in Kinds : fs[k].around = "moddoc" => k = "cls"
                \* targets initially hold mutually different interfaces
                /\ \A a, b \in Kinds : (a # b /\ IsPresent(fs[a]) /\ IsPresent(fs[b])) => fs[a].iface # fs[b].iface}

on(d) == d \in Enabled
\* as built: a function / argparse target that exists is never replaced.
\* (Two departures about MISSING target files were repaired, 8ffabf7 -- the creating path did not pass the asked-for names: a missing
\* function target made the command fail; a missing class target was created under the truth's own name.  Their actions stay in the
\* module, inert unless listed, as the record of the three-run settling that trace validation had to discover
\* step by step.)
NotReplaced(k, f) == on("sync_functiondef_not_replaced") /\ k \in {"fn", "ap"} /\ IsPresent(f)
MissingFnRaises(fs, truth) == on("sync_missing_function_target_raises") /\ truth # "fn" /\ fs["fn"].around \in {"missing"}

\* as built: rewriting a class file re-renders the whole module, and a module docstring written on one line comes back wrapped in
\* line breaks (`"""x"""` -> `"""\nx\n"""`): code outside the named target is NOT unchanged (its `__doc__` differs); stable afterwards
RewrapsDoc(k, f) == on("sync_module_docstring_rewrapped") /\ k = "cls" /\ f.around = "moddoc"

VARIABLES files, truth, runs, init, failed
vars == <<files, truth, runs, init, failed>>

Init == /\ files \in InitFiles /\ truth \in Kinds /\ IsPresent(files[truth])
        /\ (\E k \in 1..3 : KindSeq[k] = truth /\ k % NShards = Shard)
        /\ runs = 0 /\ init = files /\ failed = FALSE

\* as built: a class target whose FILE does not exist is created under the truth's own name, not under --class-name: the named target is
\* not found after the first run; the second run appends a correctly named class next to the misnamed one, the third re-renders the file,
\* and only then is a fixpoint reached (every step observed by trace validation; an existing empty file is handled correctly)
Misnamed(k, f) == on("sync_created_class_named_after_truth") /\ k = "cls" /\ f.around = "missing"
NewFile(k, t) == IF Misnamed(k, files[k]) THEN [iface |-> "misnamed", around |-> "none", rev |-> files[k].rev + 1]
                 ELSE IF files[k].iface = "misnamed" THEN [iface |-> t.iface, around |-> "settling", rev |-> files[k].rev + 1]
                 ELSE IF files[k].around = "settling" THEN [iface |-> t.iface, around |-> "none", rev |-> files[k].rev + 1]
                 ELSE IF NotReplaced(k, files[k]) THEN files[k]
                 ELSE IF IsPresent(files[k])
                 THEN [files[k] EXCEPT !.iface = t.iface, !.rev = IF files[k].iface = t.iface THEN @ ELSE @ + 1,
                                       !.around = IF RewrapsDoc(k, files[k]) /\ files[k].iface # t.iface THEN "moddoc_rewrapped" ELSE @]
                 ELSE [iface |-> t.iface, around |-> "none", rev |-> 1]
\* the truth file keeps its interface; the first run MAY re-render it (whether it does depends on details below this abstraction), and a
\* re-rendered class file has its one-line module docstring re-wrapped like any other rewritten class file
TruthNext == IF runs = 0 /\ RewrapsDoc(truth, files[truth]) THEN {files[truth], [files[truth] EXCEPT !.around = "moddoc_rewrapped"]}
             ELSE {files[truth]}
Sync == /\ runs < MaxRuns /\ ~failed
        /\ IF MissingFnRaises(files, truth)
           THEN failed' = TRUE /\ UNCHANGED files
           ELSE /\ \E tr \in TruthNext : files' = [k \in Kinds |-> IF k = truth THEN tr ELSE NewFile(k, files[truth])]
                /\ UNCHANGED failed
        /\ runs' = runs + 1 /\ UNCHANGED <<truth, init>>
Next == Sync
Spec == Init /\ [][Next]_vars

AllEquivalent == (runs >= 1 /\ ~failed) => \A k \in Kinds : IsPresent(files[k]) /\ files[k].iface = init[truth].iface
TruthUnchanged == files[truth].iface = init[truth].iface /\ files[truth].rev = init[truth].rev
AroundUnchanged == \A k \in Kinds : IsPresent(init[k]) => files[k].around = init[k].around
SecondRunNoop == [][runs >= 1 => files' = files]_vars
SecondRunNoopOrDeviation == [][(runs >= 1 /\ "sync_created_class_named_after_truth" \notin Enabled) => files' = files]_vars
Fired == {d \in Enabled : \/ (d = "sync_functiondef_not_replaced" /\ \E k \in {"fn", "ap"} : k # truth /\ IsPresent(init[k]))
                          \/ (d = "sync_missing_function_target_raises" /\ truth # "fn" /\ init["fn"].around = "missing")
                          \/ (d = "sync_created_class_named_after_truth" /\ truth # "cls" /\ init["cls"].around = "missing")
                          \/ (d = "sync_module_docstring_rewrapped" /\ init["cls"].around = "moddoc" /\ files["cls"].around = "moddoc_rewrapped")}
AroundUnchangedOrDeviation == AroundUnchanged \/ "sync_module_docstring_rewrapped" \in Fired
AllEquivalentOrDeviation == (runs >= 1) => ((~failed /\ \A k \in Kinds : IsPresent(files[k]) /\ files[k].iface = init[truth].iface) \/ Fired # {})
RECURSIVE SetToSeq(_)
SetToSeq(S) == IF S = {} THEN <<>> ELSE LET x == CHOOSE x \in S : TRUE IN <<x>> \o SetToSeq(S \ {x})
Dump == runs = MaxRuns \/ failed =>
          PrintT(ToJson([truth |-> truth, init |-> init, final |-> files, runs |-> runs, failed |-> failed, devs |-> SetToSeq(Fired)]))
=====================================================================================
