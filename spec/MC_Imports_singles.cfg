\* every public module imported first in a fresh interpreter (exhaustive)
SPECIFICATION Spec
CONSTANTS
  Mode = "singles"
  Shard = 0
  NShards = 1
INVARIANT TypeOK
INVARIANT NoFailure
INVARIANT Dump
CHECK_DEADLOCK FALSE
