SPECIFICATION Spec
CONSTANTS
  MaxParams = 1
  Reduced = TRUE
  Enabled = {}
  Fmts = {"class", "pydantic", "function", "argparse"}
  Shard = 0
  NShards = 1
INVARIANT RoundTripOrDeviation
INVARIANT Dump
CHECK_DEADLOCK FALSE
