\* the two halves as the code has them: their composition is what FormatRules states; the parsed type is always well formed
SPECIFICATION Spec
CONSTANTS
  AsBuilt = TRUE
  Shard = 0
  NShards = 1
INVARIANT Derived
INVARIANT WellFormedTyp
INVARIANT EmitInDomain
CHECK_DEADLOCK FALSE
