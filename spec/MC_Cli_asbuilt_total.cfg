\* as built, TLC must find the crash: `sync --truth sqlalchemy` is offered by the parser and ends in an AttributeError
SPECIFICATION Spec
CONSTANTS
  AsBuilt = TRUE
  Shard = 0
  NShards = 1
INVARIANT Total
CHECK_DEADLOCK FALSE
