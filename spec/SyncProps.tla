---------------------------------- MODULE SyncProps ----------------------------------
(* C13: sync_properties updates exactly the selected property.

   The output module holds one target definition (a function, a method whose first parameter is self/cls, or a class
   with annotated attributes) next to an unrelated sibling.  Slots of the target: positional parameters p1..pn with
   defaults on a suffix, keyword-only parameters k1..km, or class attributes a1..an; each slot is [name, ann, def].
   SyncProp(mode): the selected slot takes the input property's name and annotation ("plain"), the annotation wrapped by
   the template ("wrap"), or keeps its own name and receives the Literal of the evaluated input ("eval").
   Nothing else changes: OnlyTarget, DefaultsAligned, InputUntouched.                                              *)
EXTENDS Naturals, Sequences, FiniteSets, TLC, Json

CONSTANTS Enabled, Shard, NShards

Kinds == {"function", "method_self", "method_cls", "class"}
InputKinds == {"class_attr", "fn_param"}
Modes == {"plain", "wrap", "eval"}

\* a target shape: npos positional (ndef of them defaulted, a suffix), nkw keyword-only, annotated or not
Shapes == {s \in [kind : Kinds, npos : 1..4, ndef : 0..4, nkw : 0..2, annotated : BOOLEAN] :
             /\ s.ndef <= s.npos
             /\ (s.kind = "class" => (s.nkw = 0 /\ s.ndef = s.npos /\ s.annotated /\ s.npos <= 3))}
Slot(s, k) == [name |-> IF k <= s.npos THEN <<"p", k>> ELSE <<"k", k - s.npos>>,
               ann |-> IF s.annotated THEN <<"T", k>> ELSE <<"none", 0>>,
               def |-> IF k <= s.npos THEN (IF k > s.npos - s.ndef THEN <<"d", k>> ELSE <<"none", 0>>) ELSE <<"d", k>>,
               kwonly |-> k > s.npos]
SlotsOf(s) == [k \in 1..(s.npos + s.nkw) |-> Slot(s, k)]

\* `prev` = the mode of an earlier sync_properties call in the same process from the same (unchanged) input file into some
\* other output ("none" = no earlier call): the result must not depend on it (HistoryIndependent)
\* same: the input property carries the SAME NAME as the selected slot (the commonest use: keep two declarations of one thing in step)
\* vals: what the evaluated input value holds (--input-eval): "strs" = two different strings; "mixed" = members of different types some of
\* which compare EQUAL (0, 1, 2, True, 2.5: True == 1) -- the Literal must list every member, in order, as written
Cases == {c \in [shape : Shapes, target : 1..6, input : InputKinds, mode : Modes, same : BOOLEAN, vals : {"strs", "mixed"}] :
            /\ (c.mode # "eval" => c.vals = "strs")
            /\ c.target <= c.shape.npos + c.shape.nkw
            /\ (c.mode = "eval" => c.input = "class_attr" /\ ~c.same)}        \* eval reads a top-level name; the input kind is irrelevant then

SrcName == <<"src", 0>>
SrcAnn(mode) == CASE mode = "plain" -> <<"SrcT", 0>> [] mode = "wrap" -> <<"Wrap(SrcT)", 0>> [] mode = "eval" -> <<"Literal(values)", 0>>

VARIABLES c, prev, slots, input, pc
vars == <<c, prev, slots, input, pc>>
SE == INSTANCE SequencesExt
CaseSeq == SE!SetToSeq(Cases)
\* (the sequence is handed over as an ARGUMENT: TLC evaluates an argument once, a definition indexed inside a set constructor every time)
ShardOf(seq) == {seq[k] : k \in {j \in 1..Len(seq) : j % NShards = Shard}}
Init == /\ c \in ShardOf(CaseSeq)
        /\ prev \in Modes \cup {"none"}
        /\ slots = SlotsOf(c.shape) /\ input = "original" /\ pc = "start"

\* ---- named deviations (a class-attribute target is replaced wholesale by the input node) --------------------------------
ValueReplaced == "class_attr_target_value_replaced" \in Enabled /\ c.shape.kind = "class" /\ (c.input = "class_attr" \/ c.mode = "eval")
FromParamInvalid == "class_attr_target_from_fn_param_invalid" \in Enabled /\ c.shape.kind = "class" /\ c.input = "fn_param" /\ c.mode # "eval"
Fired == (IF ValueReplaced THEN {"class_attr_target_value_replaced"} ELSE {})
         \cup (IF FromParamInvalid THEN {"class_attr_target_from_fn_param_invalid"} ELSE {})

\* a same-named class attribute that carries a VALUE also hands that value to the selected positional parameter -- as its default, if
\* the parameter has one (a deliberate feature of the command; no OTHER default may move)
SetsOwnDefault == c.same /\ c.input = "class_attr" /\ c.mode # "eval" /\ c.shape.kind # "class" /\ c.target <= c.shape.npos
SyncProp == /\ pc = "start"
            /\ slots' = [slots EXCEPT ![c.target] = [@ EXCEPT !.name = IF c.mode = "eval" \/ c.same THEN @ ELSE SrcName,
                                                              !.ann = SrcAnn(c.mode),
                                                              !.def = IF ValueReplaced
                                                                      THEN (IF c.mode = "eval" THEN <<"none", 0>> ELSE <<"srcvalue", 0>>)
                                                                      ELSE IF SetsOwnDefault /\ @ # <<"none", 0>> THEN <<"srcvalue", 0>>
                                                                      ELSE @]]
            /\ pc' = (IF FromParamInvalid THEN "raised" ELSE "done") /\ UNCHANGED <<c, prev, input>>
Next == SyncProp
Spec == Init /\ [][Next]_vars

Orig == SlotsOf(c.shape)
OnlyTarget == pc = "done" => \A k \in 1..Len(slots) : k # c.target => slots[k] = Orig[k]
DefaultsAligned == (pc = "done" /\ Fired = {}) => /\ Len(slots) = Len(Orig)
                                  \* (no default moves, appears or disappears; the SELECTED slot's own default may take the input's value)
                                  /\ \A k \in 1..Len(slots) : /\ slots[k].kwonly = Orig[k].kwonly
                                                                /\ (slots[k].def = Orig[k].def
                                                                    \/ (k = c.target /\ SetsOwnDefault /\ Orig[k].def # <<"none", 0>> /\ slots[k].def = <<"srcvalue", 0>>))
InputUntouched == input = "original"
\* the post-state is a function of (shape, target, input, mode) alone
HistoryIndependent == pc = "done" => slots = [SlotsOf(c.shape) EXCEPT ![c.target] = slots[c.target]]   \* `prev` occurs nowhere in the post-state
TargetUpdated == pc = "done" => /\ slots[c.target].ann = SrcAnn(c.mode)
                                /\ slots[c.target].name = (IF c.mode = "eval" \/ c.same THEN Orig[c.target].name ELSE SrcName)
RECURSIVE SetToSeq(_)
SetToSeq(S) == IF S = {} THEN <<>> ELSE LET x == CHOOSE x \in S : TRUE IN <<x>> \o SetToSeq(S \ {x})
Dump == pc \in {"done", "raised"} => PrintT(ToJson([c |-> [shape |-> c.shape, target |-> c.target, input |-> c.input, mode |-> c.mode, same |-> c.same, vals |-> c.vals, prev |-> prev], before |-> Orig, after |-> slots, raises |-> (pc = "raised"),
                                                    devs |-> SetToSeq(Fired)]))
=====================================================================================
