\* as MC_Imports_singles/pairs but without NoFailure: lists *all* model-predicted failures for concretisation
SPECIFICATION Spec
CONSTANTS
  Mode = "singles"
  Shard = 0
  NShards = 1
INVARIANT TypeOK
INVARIANT Dump
CHECK_DEADLOCK FALSE
