SPECIFICATION Spec
CONSTANTS
  MaxLen = 3
  Shard = 0
  NShards = 1
INVARIANT Dump
CHECK_DEADLOCK FALSE
