\* required as designed (no default and not Optional): the two usability laws hold
SPECIFICATION Spec
CONSTANTS
  AsBuilt = FALSE
  Shard = 0
  NShards = 1
INVARIANT DefaultUsable
INVARIANT RequiredIffNoFallback
INVARIANT WellFormedTyp
INVARIANT EmitInDomain
CHECK_DEADLOCK FALSE
