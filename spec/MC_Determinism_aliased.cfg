\* the IR shares the body statements with the caller's object: after a class emission the same conversion of the same object returns
\* something else -> TLC must find the counterexample
SPECIFICATION Spec
CONSTANTS
  MaxSig = 1
  MaxCalls = 2
  OrderedMerge = TRUE
  ReadsLeak = FALSE
  OrderedScan = TRUE
  TableCalls = FALSE
  Registers = FALSE
  Aliases = TRUE
INVARIANT Functional
CHECK_DEADLOCK FALSE
