SPECIFICATION Spec
CONSTANTS
  Mode = "params"
  Shard = 0
  NShards = 1
INVARIANT Dump
CHECK_DEADLOCK FALSE
