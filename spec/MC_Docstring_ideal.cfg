\* C01 on the ideal rules: the property must hold in the model
SPECIFICATION Spec
CONSTANTS
  MaxParams = 1
  Reduced = TRUE
  Enabled = {}
  Shard = 0
  NShards = 1
INVARIANT RoundTrip
INVARIANT LinesTheorem
CHECK_DEADLOCK FALSE
