---------------------------------- MODULE JsonSchema ----------------------------------
(* C06: the emitted JSON-schema is valid, self-consistent and round-trips.

   Emit(i) is the abstract schema document the emitter writes:
     [description : "text" | "empty" | "null", props : Seq([type, pattern, default, description]), required : SUBSET index]
   SchemaOK is the abstract counterpart of "valid draft 2020-12 + the three consistency clauses":
     the description is a string; every type is a JSON type name; required = the non-Optional parameters;
     every default conforms to its type; a Literal becomes a pattern that accepts exactly its members.
   Parse(schema) reads the interface back.  Ideal rules: SchemaOK(Emit(i)) and Parse(Emit(i)) = i.
   As-built deviations are named and enabled from known_findings.txt.                                      *)
EXTENDS CddTypes, TLC, Json

CONSTANTS MaxParams, Enabled, Shard, NShards

JsonTyps == {"int", "float", "str", "bool", "dict", "list", "Opt_int", "Opt_float", "Opt_str", "Opt_bool", "Opt_dict", "Lit", "Lit2", "Opt_Lit2", "LitP"}
Lits == {"Lit", "Lit2", "LitP"}
JCompat(t, d) == Compat(t, d) \/ (d = "absent")
JParams == {p \in [typ : JsonTyps, def : Defs \ {"code"}, doc : {"plain", "absent"}] :
              Compat(p.typ, p.def) /\ (p.typ = "list" => p.def = "absent")}
SmallParams == {p \in JParams : p.typ \in {"int", "Opt_str", "Lit", "Opt_Lit2"} /\ p.doc = "plain"}
NoRet == [typ |-> "none", def |-> "absent", doc |-> "absent"]
Rets == {NoRet, [typ |-> "int", def |-> "absent", doc |-> "plain"]}
IDocs == {"one", "absent", "multi"}      \* "multi": a summary line, a blank line, a second paragraph (the paragraph break is part of the prose)
ParamSeqs == {<<>>} \cup {<<p>> : p \in JParams} \cup (IF MaxParams >= 2 THEN {<<p, r>> : p \in JParams, r \in SmallParams} ELSE {})

JType(t) == CASE Base(t) = "int" -> "integer" [] Base(t) = "float" -> "number" [] Base(t) \in {"str", "Lit", "Lit2", "LitP"} -> "string"
              [] Base(t) = "bool" -> "boolean" [] Base(t) = "dict" -> "object" [] Base(t) = "list" -> "array"
JsonTypeNames == {"integer", "number", "string", "boolean", "object", "array", "null"}
Conforms(d, jt) == \/ d \in {"absent"} 
                   \/ d \in IntDefs /\ jt \in {"integer", "number"}
                   \/ d \in FloatDefs /\ jt = "number"
                   \/ d \in BoolDefs /\ jt = "boolean"
                   \/ d \in StrDefs /\ jt = "string"
                   \/ d = "None" /\ jt = "null"

on(d) == d \in Enabled
\* ---- Emit ------------------------------------------------------------------------------------------------
EmitP(p) == [type |-> JType(p.typ),
             pattern |-> IF Base(p.typ) \notin Lits THEN "none" ELSE IF on("literal_pattern_unanchored") THEN "unanchored" ELSE "anchored",
             members |-> IF Base(p.typ) \in Lits THEN Base(p.typ) ELSE "none",
             default |-> IF p.def = "None" THEN "absent" ELSE p.def,        \* a None default is not written (null is not in the type)
             description |-> p.doc]
Emit(i) == [description |-> IF i.doc = "absent" /\ i.ret = NoRet
                            THEN (IF on("empty_description_is_null") THEN "null" ELSE "empty") ELSE "text",
            props |-> [k \in 1..Len(i.params) |-> EmitP(i.params[k])],
            required |-> {k \in 1..Len(i.params) : ~IsOpt(i.params[k].typ)}]

SchemaOK(s, i) == /\ s.description \in {"text", "empty"}
                  /\ \A k \in 1..Len(s.props) : s.props[k].type \in JsonTypeNames
                  /\ s.required = {k \in 1..Len(i.params) : ~IsOpt(i.params[k].typ)}
                  /\ \A k \in 1..Len(s.props) : Conforms(s.props[k].default, s.props[k].type)
                  /\ \A k \in 1..Len(s.props) : (Base(i.params[k].typ) \in Lits) => s.props[k].pattern = "anchored"

\* ---- Parse -------------------------------------------------------------------------------------------------
TypeBack(jt, lit) == IF lit # "none" THEN lit ELSE CASE jt = "integer" -> "int" [] jt = "number" -> "float" [] jt = "string" -> "str"
                                              [] jt = "boolean" -> "bool" [] jt = "object" -> "dict" [] jt = "array" -> "list"
ParseP(e, required, orig) ==
  LET base == TypeBack(e.type, e.members)
      t == IF required THEN base ELSE OptOf(base)
      \* the ideal parser restores the None default of an Optional property that has no default written
      d == IF e.default = "absent" /\ ~required /\ orig.def = "None" /\ ~on("none_default_lost") THEN "None" ELSE e.default
  IN [typ |-> t, def |-> d, doc |-> e.description]
Parse(s, i) == [doc |-> i.doc, params |-> [k \in 1..Len(s.props) |-> ParseP(s.props[k], k \in s.required, i.params[k])], ret |-> i.ret]

Fired(i) == {d \in Enabled :
               \/ (d = "empty_description_is_null" /\ i.doc = "absent" /\ i.ret = NoRet)
               \/ (d = "literal_pattern_unanchored" /\ \E k \in 1..Len(i.params) : Base(i.params[k].typ) \in Lits)
               \/ (d = "none_default_lost" /\ \E k \in 1..Len(i.params) : i.params[k].def = "None")
               \/ (d = "list_type_unsupported" /\ \E k \in 1..Len(i.params) : i.params[k].typ = "list")}

VARIABLES i, pc, schema, back
vars == <<i, pc, schema, back>>
RECURSIVE SetToSeq(_)
SetToSeq(S) == IF S = {} THEN <<>> ELSE LET x == CHOOSE x \in S : TRUE IN <<x>> \o SetToSeq(S \ {x})
SE == INSTANCE SequencesExt
IfaceSeq == SE!SetToSeq({[doc |-> d, params |-> ps, ret |-> r] : d \in IDocs, ps \in ParamSeqs, r \in Rets})
\* (the sequence is handed over as an ARGUMENT: TLC evaluates an argument once, a definition indexed inside a set constructor every time)
ShardOf(seq) == {seq[k] : k \in {j \in 1..Len(seq) : j % NShards = Shard}}
Init == /\ i \in ShardOf(IfaceSeq)
        /\ pc = "emit" /\ schema = "none" /\ back = "none"
DoEmit == pc = "emit" /\ schema' = Emit(i) /\ pc' = "parse" /\ UNCHANGED <<i, back>>
DoParse == pc = "parse" /\ back' = Parse(schema, i) /\ pc' = "done" /\ UNCHANGED <<i, schema>>
Next == DoEmit \/ DoParse
Spec == Init /\ [][Next]_vars

Valid == pc \in {"parse", "done"} => SchemaOK(schema, i)
RoundTrip == pc = "done" => back = i
ValidOrDeviation == pc \in {"parse", "done"} => (SchemaOK(schema, i) \/ Fired(i) # {})
RoundTripOrDeviation == pc = "done" => (back = i \/ Fired(i) # {})
Dump == pc = "done" => PrintT(ToJson([i |-> i, schema |-> [description |-> schema.description, props |-> schema.props,
                                                          required |-> SetToSeq(schema.required)],
                                      back |-> back, devs |-> SetToSeq(Fired(i))]))
=====================================================================================
