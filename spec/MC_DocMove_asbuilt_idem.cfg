\* as built, TLC must find that a second run to the Google style rewrites the docstring again
SPECIFICATION Spec
CONSTANTS
  AsBuilt = TRUE
  MaxRuns = 3
  Shard = 0
  NShards = 1
PROPERTY Idempotent
CHECK_DEADLOCK FALSE
