SPECIFICATION Spec
CONSTANTS
  Enabled = {}
  Shard = 0
  NShards = 1
INVARIANT SplitConcat
INVARIANT HeaderClean
INVARIANT HeaderKept
INVARIANT HeaderWhole
INVARIANT FooterWhole
CHECK_DEADLOCK FALSE
