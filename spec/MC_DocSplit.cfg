SPECIFICATION Spec
CONSTANTS
  Enabled = {}
  Shard = 0
  NShards = 1
INVARIANT SplitConcat
INVARIANT HeaderClean
INVARIANT HeaderKept
CHECK_DEADLOCK FALSE
