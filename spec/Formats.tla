---------------------------------- MODULE Formats ----------------------------------
(* C02: interface -> {class, pydantic, function, argparse} -> source text -> interface.

   cfg = [fmt, style, edd, ann, kwonly]; `Norm` is what the statement demands of the re-parsed interface: identity up
   to the two documented normalisations (a function parameter without default is shown as `=None`; argparse keeps a
   return entry only when it has a default value).  `AsBuilt` applies the named deviations that are listed as open
   findings.  Same machine shape as Docstring.tla: Init picks (cfg, interface), Round emits+parses, done.            *)
EXTENDS CddTypes, TLC, Json
INSTANCE FormatRules

CONSTANTS MaxParams, Reduced, Enabled, Shard, NShards, Fmts

Bools == {TRUE, FALSE}
Styles == {"rest", "google", "numpydoc"}
Cfgs == {c \in [fmt : Fmts, style : Styles, edd : Bools, ann : Bools, kwonly : Bools] :
           (c.fmt # "function" => (c.ann /\ c.kwonly))}              \* ann / kwonly only vary for functions
RECURSIVE SetToSeq(_)
SetToSeq(S) == IF S = {} THEN <<>> ELSE LET x == CHOOSE x \in S : TRUE IN <<x>> \o SetToSeq(S \ {x})
CfgSeq == SetToSeq(Cfgs)

SigTyps == Typs \ {"absent"}          \* typed entries (untyped ones: see DESIGN.md, C02 limits)
SigParams == ParamsOver(SigTyps, Defs \ {"code"}, {"plain", "dot"})
SmallParams == ParamsOver({"int", "str", "Opt_int"}, {"absent", "None", "int_pos", "str"}, {"plain"})
\* a return entry's default is the returned value: a literal, or an expression carried as a code-quoted string
\* ("expr": a dot-free expression such as ```max(1, 2)```)
RetDefs(t) == IF t = "int" THEN {"absent", "expr", "int_pos"} ELSE {"absent", "expr", "str", "None"}
Rets == {NoRet} \cup {r \in [typ : {"int", "Opt_str"}, def : {"absent", "expr", "int_pos", "str", "None"}, doc : {"plain"}] : r.def \in RetDefs(r.typ)}
ParamSeqs == {<<>>} \cup {<<p>> : p \in SigParams}
             \cup (IF MaxParams >= 2
                   THEN {<<p, r>> : p \in SigParams, r \in (IF Reduced THEN SmallParams ELSE SigParams)}
                   ELSE {})
InDomain(cfg, ps) == SigLegal(ps)

VARIABLES cfg, i, pc, out, fired
vars == <<cfg, i, pc, out, fired>>

Init == /\ cfg \in {CfgSeq[k] : k \in {j \in 1..Len(CfgSeq) : j % NShards = Shard}}
        /\ \E ps \in ParamSeqs, r \in Rets :
              /\ InDomain(cfg, ps)
              /\ (Len(ps) >= 2 => (r = NoRet \/ r.def = "absent"))      \* return defaults are explored with <= 1 parameter
              /\ i = [doc |-> "one", params |-> ps, ret |-> r]
        /\ pc = "start" /\ out = "none" /\ fired = {}

Round == /\ pc = "start"
         /\ LET ab == AsBuilt(Enabled, cfg, i) IN out' = ab.out /\ fired' = ab.fired
         /\ pc' = "done" /\ UNCHANGED <<cfg, i>>

Next == Round
Spec == Init /\ [][Next]_vars

RoundTrip == pc = "done" => out = Norm(cfg, i)
RoundTripOrDeviation == pc = "done" => (out = Norm(cfg, i) \/ fired # {})

ToSeq(S) == SetToSeq(S)
JP(e) == [present |-> e.present, wild |-> e.wild, typs |-> ToSeq(e.typs), def |-> e.def, doc |-> e.doc]
JI(x) == [raises |-> x.raises, wild |-> x.wild, doc |-> x.doc, params |-> [k \in 1..Len(x.params) |-> JP(x.params[k])], ret |-> JP(x.ret)]
Dump == pc = "done" => PrintT(ToJson([cfg |-> cfg, i |-> i, exp |-> JI(Norm(cfg, i)), asb |-> JI(out), devs |-> ToSeq(fired)]))
=====================================================================================
