SPECIFICATION Spec
CONSTANTS
  MaxParams = 2
  Enabled = {}
  Shard = 0
  NShards = 1
INVARIANT Valid
INVARIANT RoundTrip
CHECK_DEADLOCK FALSE
