---------------------------------- MODULE TraceCst ----------------------------------
(* (V) Batched validation of recorded executions of the real cst_scanner against AbsCst.

   TRACE_FILE (JSON): a sequence of traces [tid, n, events], one per scanned source text; each event is
   one real call of cst_scan (wrapped by the harness):  [pos, before, app, after]
       pos     characters pushed onto the stack since the start (== index of the newline being looked at)
       before  len(stack) on entry,  app  lengths of the chunks appended to `scanned`,  after  len(stack) on exit
   plus a last event [pos |-> n, before, app, after |-> 0] for the trailing scan + final flush.
   Each event must be explainable as  PushChars(e.pos - pos) ; (Keep \/ Flush(e.app)).
   Acceptance: every trace consumed to its end (POSTCONDITION Report, one REJECT line per failing trace). *)
EXTENDS Naturals, Sequences, TLC, Json, IOUtils

Traces == JsonDeserialize(IOEnv.TRACE_FILE)
N == Len(Traces)

VARIABLES t, l, pos, stackLen, outLen
INSTANCE AbsCst
vars == <<t, l, pos, stackLen, outLen>>

Init == t \in 1..N /\ l = 1 /\ AbsInit

Step == /\ l <= Len(Traces[t].events)
        /\ LET e == Traces[t].events[l] IN
             /\ e.pos >= pos
             /\ stackLen + (e.pos - pos) = e.before                  \* only pushes happened since the last scan
             /\ \/ /\ e.app = <<>> /\ e.after = e.before              \* Keep
                   /\ pos' = e.pos /\ stackLen' = e.before /\ UNCHANGED outLen
                \/ /\ e.app # <<>>                                    \* Flush: non-empty chunks leave the stack;
                   /\ \A i \in 1..Len(e.app) : e.app[i] > 0           \* nothing is lost or invented in the move
                   /\ SumSeq(e.app) + e.after = e.before
                   /\ pos' = e.pos /\ stackLen' = e.after /\ outLen' = outLen + SumSeq(e.app)
             /\ (l = Len(Traces[t].events)) =>                       \* the last event leaves nothing behind
                   (stackLen' = 0 /\ pos' = Traces[t].n /\ outLen' = Traces[t].n)
        /\ l' = l + 1 /\ UNCHANGED t

Spec == Init /\ [][Step]_vars

Inv == AbsConservation

ASSUME \A i \in 1..N : TLCSet(i, 0)
Reach == TLCSet(t, IF l > TLCGet(t) THEN l ELSE TLCGet(t))
Report == \A i \in 1..N : \/ TLCGet(i) = Len(Traces[i].events) + 1
                          \/ PrintT(ToJson([reject |-> Traces[i].tid, at |-> TLCGet(i)]))
=====================================================================================
