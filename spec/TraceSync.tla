---------------------------------- MODULE TraceSync ----------------------------------
(* (V) What the real `sync` command did, run after run, validated against Sync.tla by TLC.

   TRACE_FILE: a sequence of records
     [tid, truth, init : [cls, fn, ap : [iface, around]],                       the initial triple (as Sync.tla's Init draws it)
      obs : Seq([raised : BOOLEAN,                                               one record per consecutive run of the real command
                 cls, fn, ap : [present, eq, changed, around : BOOLEAN]])]       projected from the real files after that run:
        present  the file exists and holds the named target            eq      the target's interface, re-parsed, equals the truth's
        changed  the file's bytes differ from before this run          around  the code outside the named target is as it was initially
   The trace spec EXTENDS Sync and reuses its action: every step is Sync's own `Sync` (as built: Enabled = the listed findings), and the
   state it produces must PROJECT onto the observation of that run.  A trace whose run r does not match is reported (id, run, clauses) and
   abandoned; a matching trace is consumed to its end.  One TLC run validates all traces of a check run.                              *)
EXTENDS Sync, IOUtils

Traces == JsonDeserialize(IOEnv.TRACE_FILE)
NT == Len(Traces)
VARIABLES t, verdict
tvars == <<files, truth, runs, init, failed, t, verdict>>

FileOf(r) == IF r.around = "missing" THEN Missing ELSE IF r.around = "empty" THEN Empty ELSE [iface |-> r.iface, around |-> r.around, rev |-> 0]
TraceInit == /\ t \in 1..NT
             /\ files = [k \in Kinds |-> FileOf(Traces[t].init[k])]
             /\ truth = Traces[t].truth /\ runs = 0 /\ init = files /\ failed = FALSE /\ verdict = "pending"

\* the projection of a model state onto what the harness can observe after run r (prevrev: the revision counters before the run)
ProjOK(k, o, prevrev) ==
  /\ o.present = (IsPresent(files'[k]) /\ files'[k].iface # "misnamed")      \* (a misnamed class is in the file, but not under the asked-for name)
  /\ o.eq = (IsPresent(files'[k]) /\ files'[k].iface = init[truth].iface)
  \* (the statement fixes the truth's INTERFACE, not its bytes: the first run may re-render the truth file; from the second run on
  \* nothing may change any more)
  /\ ((k = truth /\ runs = 0) \/ o.changed = (files'[k].rev # prevrev[k]))
  /\ (IsPresent(init[k]) /\ IsPresent(files'[k]) => o.around = (files'[k].around = init[k].around))
Failing(o, prevrev) == {k \in Kinds : ~ProjOK(k, o[k], prevrev)}
RECURSIVE SetToSeqT(_)
SetToSeqT(S) == IF S = {} THEN <<>> ELSE LET x == CHOOSE x \in S : TRUE IN <<x>> \o SetToSeqT(S \ {x})

TraceStep ==
  /\ verdict = "pending" /\ runs < Len(Traces[t].obs)
  /\ Sync                                                     \* Sync.tla's own action (bounded by MaxRuns, stops after a failure)
  /\ LET o == Traces[t].obs[runs + 1] prevrev == [k \in Kinds |-> files[k].rev] IN
       IF failed' # o.raised
       THEN /\ verdict' = "rejected"
            /\ PrintT(ToJson([reject |-> Traces[t].tid, run |-> runs + 1, clauses |-> <<IF o.raised THEN "the command raised" ELSE "the command did not raise">>]))
       ELSE IF ~failed' /\ Failing(o, prevrev) # {}
       THEN /\ verdict' = "rejected"
            /\ PrintT(ToJson([reject |-> Traces[t].tid, run |-> runs + 1, clauses |-> SetToSeqT(Failing(o, prevrev))]))
       ELSE IF runs + 1 = Len(Traces[t].obs) \/ failed'
       THEN verdict' = "accepted" /\ PrintT(ToJson([accept |-> Traces[t].tid, runs |-> runs + 1]))
       ELSE verdict' = "pending"
  /\ UNCHANGED t
TraceSpec == TraceInit /\ [][TraceStep]_tvars
\* (verdicts are total: every trace id is printed once, accepted or rejected; the harness insists on it)
=====================================================================================
