------------------------------------ MODULE Cli ------------------------------------
(* The command line (cdd/__main__.py) as a state machine -- behaviour that none of the listed properties names, but through
   which every command of C07, C12, C13, C16, C17, C19, C20 is reached.

   An invocation is a record of the command and the abstract value of each argument that the entry point itself looks at
   (file arguments: "absent" = option not given, "missing" = names no file, "exists"; flags: given or not).  The entry point
   is three steps, one action each:
       Syntax    argparse: required options, choices, the mutually exclusive group of doctrans         -> usage error | next
       Validate  main(): files that must exist, "two or more files" for sync, gen's destructive guard  -> usage error | IOError | next
       Dispatch  exactly one command function is called with keyword arguments mapped from the options
   Properties:  ValidateBeforeEffect  a usage error / IOError is reached with NO command function called
                OneCall               every accepted invocation calls its command function once (gen_routes: the generator, then the upsert)
                Mapping               the keyword arguments of the call are the documented image of the options
                Total                 every invocation ends in a usage error, an IOError or a dispatch -- never in a crash
   `Total` and `Mapping` fail for two invocation classes as built; they are the named deviations below (they belong to no listed
   property and are recorded in DESIGN.md section 11).                                                                        *)
EXTENDS Naturals, Sequences, FiniteSets, TLC, Json

CONSTANTS AsBuilt, Shard, NShards

FileArg == {"absent", "missing", "exists"}
Given == {"missing", "exists"}
Flags == SUBSET {"ta", "nta", "nww"}              \* --type-annotations, --no-type-annotations, --no-word-wrap

Invocations ==
       [cmd : {"sync"}, truth : {"class", "function", "argparse_function", "sqlalchemy"}, cls : FileArg, fn : FileArg, ap : FileArg]
  \cup [cmd : {"sync_properties"}, inp : Given, out : Given, eval : BOOLEAN, wrap : BOOLEAN]
  \cup [cmd : {"gen"}, out : Given, phase : {0, 1}, parse : {"infer", "class"}]
  \cup [cmd : {"gen_routes"}, route : {"absent", "given"}]
  \cup [cmd : {"openapi"}, app : {"absent", "given"}]
  \cup [cmd : {"doctrans"}, file : Given, flags : Flags]
  \cup [cmd : {"exmod"}, dry : BOOLEAN, recursive : BOOLEAN, filters : {"none", "black", "white"}]
  \cup [cmd : {"nothing"}]                                  \* no sub-command at all

\* ---- Syntax ---------------------------------------------------------------------------------------------------------
\* doctrans: as DESIGNED the two type-annotation flags exclude each other, one of them is required, --no-word-wrap is independent;
\* as BUILT all three sit in one required mutually exclusive group
DoctransSyntaxOK(i) == IF AsBuilt THEN Cardinality(i.flags) = 1
                       ELSE Cardinality(i.flags \cap {"ta", "nta"}) = 1
SyntaxOK(i) == CASE i.cmd = "nothing" -> FALSE
                 [] i.cmd = "doctrans" -> DoctransSyntaxOK(i)
                 [] OTHER -> TRUE

\* ---- Validate -------------------------------------------------------------------------------------------------------
TruthFile(i) == CASE i.truth = "class" -> i.cls [] i.truth = "function" -> i.fn [] i.truth = "argparse_function" -> i.ap [] OTHER -> "absent"
NFiles(i) == Cardinality({k \in {"cls", "fn", "ap"} : i[k] # "absent"})
\* -> "ok" | "usage" | "IOError" | "crash"
Validate(i) ==
  CASE i.cmd = "sync" ->
         IF i.truth = "sqlalchemy" THEN (IF AsBuilt THEN "crash" ELSE "usage")     \* offered by --truth, but there is no file option for it
         ELSE IF TruthFile(i) # "exists" THEN "usage"
         ELSE IF NFiles(i) < 2 THEN "usage" ELSE "ok"
    [] i.cmd = "sync_properties" -> IF i.inp = "exists" /\ i.out = "exists" THEN "ok" ELSE "usage"
    [] i.cmd = "gen" -> IF i.out = "exists" /\ i.phase = 0 THEN "IOError" ELSE "ok"
    [] i.cmd = "doctrans" -> IF i.file = "exists" THEN "ok" ELSE "usage"
    [] OTHER -> "ok"

\* ---- Dispatch: the callee(s) and the image of the options ----------------------------------------------------------------
Callees(i) == CASE i.cmd = "sync" -> <<"ground_truth">> [] i.cmd = "sync_properties" -> <<"sync_properties">> [] i.cmd = "gen" -> <<"gen">>
                [] i.cmd = "gen_routes" -> <<"gen_routes", "upsert_routes">> [] i.cmd = "openapi" -> <<"openapi_bulk">>
                [] i.cmd = "doctrans" -> <<"doctrans">> [] i.cmd = "exmod" -> <<"exmod">>
Image(i) ==
  CASE i.cmd = "sync" -> [truth |-> i.truth, truth_file |-> "realpath", files |-> NFiles(i)]
    [] i.cmd = "sync_properties" -> [input_eval |-> i.eval, wrap |-> IF i.wrap THEN "given" ELSE "None", paths |-> "realpath"]
    [] i.cmd = "gen" -> [phase |-> i.phase, parse_name |-> i.parse]
    [] i.cmd = "gen_routes" -> [route |-> IF i.route = "given" THEN "as given" ELSE "/api/<model name, lower case>"]
    [] i.cmd = "openapi" -> [app_name |-> IF i.app = "given" THEN "as given" ELSE "rest_api"]
    [] i.cmd = "doctrans" -> [docstring_format |-> "format", type_annotations |-> "ta" \in i.flags, no_word_wrap |-> "nww" \in i.flags]
    [] i.cmd = "exmod" -> [dry_run |-> i.dry, recursive |-> i.recursive, mock_imports |-> FALSE,
                           blacklist |-> IF i.filters = "black" THEN "given" ELSE "None", whitelist |-> IF i.filters = "white" THEN "given" ELSE "None"]

VARIABLES inv, pc, outcome, calls
vars == <<inv, pc, outcome, calls>>
SE == INSTANCE SequencesExt
InvSeq == SE!SetToSeq(Invocations)
\* (the sequence is handed over as an ARGUMENT: TLC evaluates an argument once, a definition indexed inside a set constructor every time)
ShardOf(seq) == {seq[k] : k \in {j \in 1..Len(seq) : j % NShards = Shard}}
Init == /\ inv \in ShardOf(InvSeq)
        /\ pc = "syntax" /\ outcome = "none" /\ calls = <<>>
Syntax == /\ pc = "syntax"
          /\ IF SyntaxOK(inv) THEN pc' = "validate" /\ UNCHANGED outcome ELSE pc' = "done" /\ outcome' = "usage"
          /\ UNCHANGED <<inv, calls>>
DoValidate == /\ pc = "validate"
              /\ LET v == Validate(inv) IN IF v = "ok" THEN pc' = "dispatch" /\ UNCHANGED outcome ELSE pc' = "done" /\ outcome' = v
              /\ UNCHANGED <<inv, calls>>
Dispatch == /\ pc = "dispatch" /\ Len(calls) < Len(Callees(inv))
            /\ calls' = Append(calls, Callees(inv)[Len(calls) + 1])
            /\ IF Len(calls') = Len(Callees(inv)) THEN pc' = "done" /\ outcome' = "dispatched" ELSE UNCHANGED <<pc, outcome>>
            /\ UNCHANGED inv
Next == Syntax \/ DoValidate \/ Dispatch
Spec == Init /\ [][Next]_vars

ValidateBeforeEffect == outcome \in {"usage", "IOError", "crash"} => calls = <<>>
OneCall == (pc = "done" /\ outcome = "dispatched") => calls = Callees(inv)
Total == pc = "done" => outcome \in {"usage", "IOError", "dispatched"}
\* every combination of the two independent doctrans settings is expressible on the command line
DoctransExpressible == \A ta \in BOOLEAN, nww \in BOOLEAN : \E f \in Flags :
                          DoctransSyntaxOK([cmd |-> "doctrans", file |-> "exists", flags |-> f]) /\ ("ta" \in f) = ta /\ ("nww" \in f) = nww
ExpressibleInv == pc \in {"syntax", "validate", "dispatch", "done"} => DoctransExpressible      \* (state-level, so that TLC reports it as an invariant)

Dump == pc = "done" => PrintT(ToJson([inv |-> inv, outcome |-> outcome, calls |-> calls,
                                       image |-> IF outcome = "dispatched" THEN Image(inv) ELSE [none |-> TRUE]]))
=====================================================================================
