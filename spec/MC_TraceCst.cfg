SPECIFICATION Spec
INVARIANT Inv
CONSTRAINT Reach
POSTCONDITION Report
CHECK_DEADLOCK FALSE
