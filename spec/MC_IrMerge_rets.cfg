SPECIFICATION Spec
CONSTANTS
  Mode = "rets"
  Shard = 0
  NShards = 1
INVARIANT Dump
CHECK_DEADLOCK FALSE
