---------------------------------- MODULE ArgSpec ----------------------------------
(* The argparse option of one parameter, in both directions.   (Specification coverage, not a listed property: X07.)

   C02/C03/C04 see the argparse format only through whole round trips; FormatRules.tla STATES what comes back (four named departures).
   This module transcribes the two decision procedures underneath, at the level of the `add_argument` call itself:

     EmitArg(p)   param2argparse_param / _resolve_arg / infer_type_and_default (cdd/shared/ast_utils.py):
                  parameter [typ, def]  ->  keyword record [type, choices, action, required, default]
     ParseArg(k)  parse_out_param / _handle_keyword / _handle_value (cdd/argparse_function/utils/emit_utils.py):
                  keyword record        ->  [typ : sequence of wrappers ending in a base, def]
                  -- total over ALL keyword records, also those the emitter never writes (choices with a type, append with loads, a
                  default announced only in the help text ...)

   Laws (TLC):
     Derived        ParseArg(EmitArg(p)) is exactly what FormatRules!AsBuiltP says comes back for the argparse format: the four listed
                    argparse departures (zero default for a required option, None default dropped, bool without default becomes
                    Optional, Union/dotted/dict collapse) are THEOREMS about the two halves, not independent statements
     WellFormedTyp  whatever the keyword record, the parsed type is a legal nesting (Optional at most once and outermost or directly
                    around dict, List above Literal/Union/base)
     DefaultUsable  designed: a written default is never shadowed by required=True        -- as built: REFUTED (int = 5 is written
                    `required=True, default=5`: the option must be given on the command line although it has a default)
     RequiredIffNoFallback  designed: required <=> the parameter has no default and is not Optional   -- as built: REFUTED likewise   *)
EXTENDS CddTypes, Sequences, FiniteSets, TLC, Json

CONSTANTS AsBuilt, Shard, NShards

FR == INSTANCE FormatRules

\* ---- keyword records ---------------------------------------------------------------------------------------------------------
KTypes == {"none", "int", "float", "bool", "str", "loads", "Path"}           \* `type=` (none: not written; Path: some other callable)
KDefaults == {"none", "int_pos", "float_pos", "bool_T", "str", "str_empty", "NoneStr", "code_paren"}
KRecords == [type : KTypes, choices : BOOLEAN, action : {"none", "append"}, required : BOOLEAN, default : KDefaults,
             helpdef : BOOLEAN]                                             \* helpdef: the help text says `Defaults to 7`
K(t, c, a, r, d) == [type |-> t, choices |-> c, action |-> a, required |-> r, default |-> d, helpdef |-> FALSE]

\* ---- emit: parameter -> keyword record -----------------------------------------------------------------------------------------
Simple == {"int", "float", "str", "bool"}
\* the default as it is written (`default=`): None is dropped, a code-quoted expression is parenthesised inside its quotes
KDefOf(d) == CASE d = "absent" -> "none" [] d = "None" -> "none" [] d = "code" -> "code_paren"
               [] d \in IntDefs -> "int_pos" [] d \in FloatDefs -> "float_pos" [] d \in BoolDefs -> "bool_T"
               [] d = "str_empty" -> "str_empty" [] OTHER -> "str"
\* the `type=` keyword: `str` is argparse's own default and is not written unless an action needs it
KTypeOf(p) ==
  LET b == Base(p.typ) tdef == TypOfDef(p.def) IN
  CASE b \in {"int", "float", "bool"} -> b
    [] b = "str" -> "none"
    [] b = "List_str" -> "str"                                  \* action="append" keeps the element type
    [] b \in {"Lit", "Lit2", "LitP"} -> "none"                  \* choices carry it
    [] p.typ = "dict" -> "loads"
    [] p.typ = "Opt_dict" -> "none"                             \* as built: Optional[dict] falls back to str
    [] b = "Union_int_str" -> (IF tdef = "int" THEN "int" ELSE "none")     \* as built: the default's type decides
    [] b = "Dotted" -> "none"
    [] b = "absent" -> (IF tdef \in {"int", "float", "bool"} THEN tdef ELSE "none")
    [] OTHER -> "none"
\* as built `required` starts out as "has a default" (sic), every non-Optional type except bool then forces it to True, Optional to False
KRequired(p) ==
  IF AsBuilt
  THEN (IF IsOpt(p.typ) THEN FALSE
        ELSE IF p.typ = "bool" THEN p.def # "absent"
        ELSE IF p.typ = "absent" /\ p.def = "None" THEN FALSE
        ELSE TRUE)
  ELSE ~IsOpt(p.typ) /\ p.def = "absent"
EmitArg(p) == [type |-> KTypeOf(p), choices |-> Base(p.typ) \in {"Lit", "Lit2", "LitP"},
               action |-> IF p.typ = "List_str" THEN "append" ELSE "none",
               required |-> KRequired(p), default |-> KDefOf(p.def), helpdef |-> FALSE]

\* ---- parse: keyword record -> [typ, def] -----------------------------------------------------------------------------------------
Range(s) == {s[j] : j \in 1..Len(s)}
BaseOfK(k) == IF k.type = "none" THEN "str" ELSE k.type
ZeroKind(b) == CASE b = "int" -> "int_zero" [] b = "float" -> "zero_float" [] b = "bool" -> "bool_F" [] b = "str" -> "str_empty"
ParseDef(k) ==
  IF k.default # "none" THEN k.default
  ELSE IF k.helpdef THEN "int_pos"                                        \* extracted from the help text
  ELSE IF k.required THEN (IF BaseOfK(k) \in Simple THEN ZeroKind(BaseOfK(k)) ELSE "NoneStr")
  ELSE "absent"
ParseTyp(k) ==
  LET t0 == IF k.type = "loads" THEN <<"Optional", "dict">> ELSE <<BaseOfK(k)>>
      \* choices REPLACE the type: Literal[..] for a simple type, Union[..] otherwise (the members are all that is kept)
      t1 == IF k.choices THEN (IF BaseOfK(k) \in Simple THEN <<"Literal">> ELSE <<"Union">>) ELSE t0
      t2 == IF k.action = "append" THEN <<"List">> \o t1 ELSE t1
  IN IF ~k.required /\ "Optional" \notin Range(t2) THEN <<"Optional">> \o t2 ELSE t2
ParseArg(k) == [typ |-> ParseTyp(k), def |-> ParseDef(k)]

\* ---- the laws ------------------------------------------------------------------------------------------------------------------
\* the CddTypes name of a parsed type (the round trip only meets these)
NameOf(s) == CASE s = <<"int">> -> "int" [] s = <<"float">> -> "float" [] s = <<"bool">> -> "bool" [] s = <<"str">> -> "str"
               [] s = <<"Optional", "int">> -> "Opt_int" [] s = <<"Optional", "float">> -> "Opt_float"
               [] s = <<"Optional", "bool">> -> "Opt_bool" [] s = <<"Optional", "str">> -> "Opt_str"
               [] s = <<"Literal">> -> "Lit" [] s = <<"List", "str">> -> "List_str" [] s = <<"Optional", "dict">> -> "Opt_dict"
               [] OTHER -> "other"
\* parsed default kind -> CddTypes default kind, given what was put in (the kind classes of KDefOf are collapsed again)
BackDef(p, d) == CASE d = "none" -> "absent" [] d = "absent" -> "absent" [] d = "NoneStr" -> "None"
                   [] d = "code_paren" -> "code"
                   [] d \in {"int_pos", "float_pos", "bool_T", "str"} /\ KDefOf(p.def) = d -> p.def
                   [] d = "str_empty" -> "str_empty" [] d = "int_zero" -> "int_zero" [] d = "zero_float" -> "zero_float"
                   [] d = "bool_F" -> "bool_F" [] OTHER -> d
ArgDevs == {"argparse_required_gets_zero_default", "argparse_none_default_dropped", "argparse_bool_no_default_optional",
            "argparse_type_collapsed"}
ApCfg == [fmt |-> "argparse", style |-> "rest", edd |-> FALSE, ann |-> FALSE, kwonly |-> FALSE]
Lit3(p) == IF Base(p.typ) \in {"Lit2", "LitP"} THEN "Lit" ELSE p.typ      \* (choices do not tell the Literal kinds apart)
Predicted(p) == FR!AsBuiltP(ArgDevs, ApCfg, p)[1]
DerivedFor(p) ==
  LET rt == ParseArg(EmitArg(p)) want == Predicted(p) IN
  /\ (NameOf(rt.typ) \in want.typs \/ (NameOf(rt.typ) = "Lit" /\ Base(p.typ) \in {"Lit", "Lit2", "LitP"} /\ want.typs = {p.typ}))
  /\ BackDef(p, rt.def) = want.def

\* every parameter of the shared domain is emitted; the round trip is JUDGED (by C02, hence by FormatRules) on typed entries whose default
\* is not a code-quoted expression -- on the rest this module is the only statement of what happens
ApParams == {x \in [typ : Typs, def : Defs] : Compat(x.typ, x.def)}
Judged(x) == x.typ # "absent" /\ x.def # "code"
WithDoc(p) == [typ |-> p.typ, def |-> p.def, doc |-> "plain"]

VARIABLES mode, p, k, pc
vars == <<mode, p, k, pc>>
NoP == [typ |-> "absent", def |-> "absent"]
NoK == K("none", FALSE, "none", FALSE, "none")
ShardOfSet(S, h(_)) == {x \in S : h(x) % NShards = Shard}
HP(x) == Cardinality({t \in Typs : t = x.typ /\ x.def \in IntDefs}) + (IF IsOpt(x.typ) THEN 1 ELSE 0) + (IF x.def = "absent" THEN 2 ELSE 0)
HK(x) == (IF x.required THEN 1 ELSE 0) + (IF x.choices THEN 2 ELSE 0) + (IF x.helpdef THEN 1 ELSE 0)
Init == \/ mode = "emit" /\ p \in ShardOfSet(ApParams, HP) /\ k = NoK /\ pc = "start"
        \/ mode = "parse" /\ k \in ShardOfSet(KRecords, HK) /\ p = NoP /\ pc = "start"
Go == pc = "start" /\ pc' = "done" /\ k' = (IF mode = "emit" THEN EmitArg(p) ELSE k) /\ UNCHANGED <<mode, p>>
Spec == Init /\ [][Go]_vars

Derived == (mode = "emit" /\ pc = "done" /\ Judged(p)) => DerivedFor(WithDoc(p))
WellFormedTyp == pc = "done" =>
  LET s == ParseTyp(k) IN
  /\ Cardinality({j \in 1..Len(s) : s[j] = "Optional"}) <= 1
  /\ \A j \in 1..Len(s) : s[j] = "Optional" => (j = 1 \/ s[j + 1] = "dict")
  /\ \A j \in 1..Len(s) : s[j] \in {"Literal", "Union", "int", "float", "bool", "str", "dict", "Path"} => j = Len(s)
DefaultUsable == (mode = "emit" /\ pc = "done") => ~(k.default # "none" /\ k.required)
RequiredIffNoFallback == (mode = "emit" /\ pc = "done") => (k.required <=> (~IsOpt(p.typ) /\ p.def = "absent"))
\* every keyword record the emitter writes is one the parser understands (the emitter's image lies in KRecords)
EmitInDomain == (mode = "emit" /\ pc = "done") => k \in KRecords

Dump == pc = "done" =>
  PrintT(ToJson([mode |-> mode, p |-> p, k |-> k, parsed |-> [typ |-> ParseTyp(k), def |-> ParseDef(k)]]))
=====================================================================================
