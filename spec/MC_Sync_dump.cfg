SPECIFICATION Spec
CONSTANTS
  MaxRuns = 2
  Enabled = {}
  Shard = 0
  NShards = 1
INVARIANT AllEquivalentOrDeviation
INVARIANT TruthUnchanged
INVARIANT AroundUnchangedOrDeviation
PROPERTY SecondRunNoopOrDeviation
INVARIANT Dump
CHECK_DEADLOCK FALSE
