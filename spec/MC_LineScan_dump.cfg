SPECIFICATION Spec
CONSTANTS
  MaxLen = 4
  Shard = 0
  NShards = 1
INVARIANT Dump
CHECK_DEADLOCK FALSE
