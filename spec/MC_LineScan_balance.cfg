\* the as-built scanner and Python's own reading of a line must DISAGREE somewhere: TLC finds the shortest such line
SPECIFICATION Spec
CONSTANTS
  MaxLen = 4
  Shard = 0
  NShards = 1
INVARIANT BalanceAgrees
CHECK_DEADLOCK FALSE
