---------------------------------- MODULE DocSplit ----------------------------------
(* C15: docstring prose outside the parameter section is preserved.

   A docstring is a sequence of lines; a line is [k, id]:
     k = "T" prose text (opaque id), "B" blank, "I" indented prose, "D" doctest line, "U" a dashed underline of the prose
     line above it (a sub-heading in the long description / a `Notes` heading in the footer), "K" a prose line that BEGINS WITH A SECTION
     KEYWORD used as an ordinary word ("Raises the alarm as soon as ...", "Returns nothing when ...", "Args are forwarded ..."), "S" a line of the parameter/return
     section (id = position inside the section; the section of a style may contain blank separator lines "SB").
   doc = header \o section(style) \o footer, written at indentation level `indent`; its first line stands on a line of its own below the
   opening quotes (first = "own") or right behind them (first = "quotes", PEP 257's one-liner position: that line carries NO indentation).
   Split(doc) = <<header, args, footer>>:  SplitConcat  header \o args \o footer = doc
                                           HeaderClean  no section line in header or footer
   Restyle(doc, to) = header \o section(to) \o footer:
                                           HeaderKept   the header's prose lines occur, in order, in the restyled docstring
                                           NoProseInFields  no prose id ends up inside a parsed type or default            *)
EXTENDS Naturals, Sequences, FiniteSets, TLC, Json

CONSTANTS Enabled, Shard, NShards

Styles == <<"rest", "google", "numpydoc">>
StyleSet == {"rest", "google", "numpydoc"}
HeaderShapes == {<<"T">>, <<"T", "B", "T">>, <<"T", "B", "T", "T">>, <<"T", "B", "I">>, <<"T", "B", "D", "B", "T">>, <<"T", "T">>,
                 <<"T", "B", "T", "U", "T">>, <<"T", "B", "T", "U", "B", "T">>,
                 <<"T", "B", "K", "T">>, <<"T", "B", "T", "K">>, <<"K", "B", "T">>}
FooterShapes == {<<>>, <<"B", "T">>, <<"B", "D", "D">>, <<"B", "T", "B", "T">>, <<"B", "T", "U", "T">>, <<"B", "K">>}
\* the route a conversion takes: the docstring parser + emitter directly, or a function definition parsed and re-emitted
\* (the path `doctrans` takes: the original docstring is carried alongside the IR)
\* "ir": the docstring parser, then the emitter from the interface description ALONE (header and footer travel inside its `doc` field:
\* the afterward text is folded back into it)
Routes == {"docstring", "function", "ir"}
\* the section of each style for one parameter + a return entry: which of its lines are blank separators
SectionOf(st) == CASE st = "rest" -> <<"S", "S", "SB", "S", "S">>                  \* :param/:type, blank, :return/:rtype
                   [] st = "google" -> <<"S", "S", "SB", "S", "S">>                \* Args: / item, blank, Returns: / item
                   [] st = "numpydoc" -> <<"S", "S", "S", "S", "SB", "S", "S", "S", "S">>
\* which entries the section holds: parameters and a return entry, parameters only, a return entry only
Sects == {"both", "params", "ret"}
SectionOfKind(st, k) == CASE k = "both" -> SectionOf(st)
                          [] k = "params" -> (IF st = "numpydoc" THEN <<"S", "S", "S", "S">> ELSE <<"S", "S">>)
                          [] k = "ret" -> (IF st = "numpydoc" THEN <<"S", "S", "S", "S">> ELSE IF st = "google" THEN <<"S", "S", "S">> ELSE <<"S", "S">>)
Number(kinds, base) == [k \in 1..Len(kinds) |-> [k |-> kinds[k], id |-> base + k]]
Doc(h, st, f, sk) == Number(h, 100) \o <<[k |-> "B", id |-> 0]>> \o Number(SectionOfKind(st, sk), 200) \o Number(f, 300)

IsSection(l) == l.k \in {"S", "SB"}
FirstS(d) == CHOOSE i \in 1..Len(d) : IsSection(d[i]) /\ \A j \in 1..(i - 1) : ~IsSection(d[j])
LastS(d) == CHOOSE i \in 1..Len(d) : IsSection(d[i]) /\ \A j \in (i + 1)..Len(d) : ~IsSection(d[j])
Split(d) == <<SubSeq(d, 1, FirstS(d) - 1), SubSeq(d, FirstS(d), LastS(d)), SubSeq(d, LastS(d) + 1, Len(d))>>
Restyle(d, to, sk) == Split(d)[1] \o Number(SectionOfKind(to, sk), 200) \o Split(d)[3]
Prose(s) == SelectSeq(s, LAMBDA l : l.k \in {"T", "I", "D", "U", "K"})

\* the named deviation: at indentation >= 1 a blank separator inside the section is re-indented by the split
\* (a docstring that sits in a function is written one level deeper than the function)
TextIndent(indent, route) == indent + (IF route = "function" THEN 1 ELSE 0)
\* (it also drops the indentation of the last, whitespace-only line before the closing quotes: any section kind)
Reindents(indent, st, sk) == "split_reindents_blank_lines" \in Enabled /\ indent >= 1

VARIABLES h, f, from, to, indent, pc, parts, restyled, route, sect, first
vars == <<h, f, from, to, indent, pc, parts, restyled, route, sect, first>>
Init == /\ first \in {"own", "quotes"}
        /\ h \in HeaderShapes /\ route \in Routes /\ sect \in Sects /\ f \in FooterShapes /\ from \in StyleSet /\ to \in StyleSet /\ indent \in 0..2
        /\ (\E k \in 1..3 : Styles[k] = from /\ k % NShards = Shard)
        /\ pc = "start" /\ parts = <<>> /\ restyled = <<>>
DoSplit == pc = "start" /\ parts' = Split(Doc(h, from, f, sect)) /\ pc' = "split" /\ UNCHANGED <<h, f, from, to, indent, restyled, route, sect, first>>
DoRestyle == pc = "split" /\ restyled' = Restyle(Doc(h, from, f, sect), to, sect) /\ pc' = "done" /\ UNCHANGED <<h, f, from, to, indent, parts, route, sect, first>>
Next == DoSplit \/ DoRestyle
Spec == Init /\ [][Next]_vars

IsSubseq(a, b) == \E g \in [1..Len(a) -> 1..Len(b)] : (\A i \in 1..Len(a) : b[g[i]] = a[i]) /\ (\A i, j \in 1..Len(a) : i < j => g[i] < g[j])
SplitConcat == pc \in {"split", "done"} => parts[1] \o parts[2] \o parts[3] = Doc(h, from, f, sect)
HeaderClean == pc \in {"split", "done"} => (\A i \in 1..Len(parts[1]) : ~IsSection(parts[1][i])) /\ (\A i \in 1..Len(parts[3]) : ~IsSection(parts[3][i]))
\* the header part holds ALL the header prose, and only it (where the section ends and the footer begins is left open by the
\* statement beyond the concatenation identity, so FooterWhole is checked on the model but not demanded of the code)
HeaderWhole == pc \in {"split", "done"} => Prose(parts[1]) = Prose(Number(h, 100))
FooterWhole == pc \in {"split", "done"} => Prose(parts[3]) = Prose(Number(f, 300))
HeaderKept == pc = "done" => IsSubseq(Prose(Number(h, 100)), restyled)
\* ReST: the last `:type` / `:rtype:` line swallows the footer prose that follows it into the type
Absorbs == "rest_footer_absorbed_into_rtype" \in Enabled /\ from = "rest" /\ f # <<>>
Fired == (IF Reindents(TextIndent(indent, route), from, sect) THEN {"split_reindents_blank_lines"} ELSE {})
         \cup (IF Absorbs THEN {"rest_footer_absorbed_into_rtype"} ELSE {})
RECURSIVE SetToSeq(_)
SetToSeq(S) == IF S = {} THEN <<>> ELSE LET x == CHOOSE x \in S : TRUE IN <<x>> \o SetToSeq(S \ {x})
Dump == pc = "done" => PrintT(ToJson([h |-> h, f |-> f, from |-> from, to |-> to, indent |-> indent, route |-> route, sect |-> sect, first |-> first, devs |-> SetToSeq(Fired)]))
=====================================================================================
