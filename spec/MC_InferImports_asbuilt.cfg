SPECIFICATION Spec
CONSTANTS
  AsBuilt = TRUE
  MaxOcc = 2
  Shard = 0
  NShards = 1
INVARIANT FirstHome
INVARIANT Sorted
CHECK_DEADLOCK FALSE
