SPECIFICATION Spec
CONSTANTS
  MaxModels = 2
  Enabled = {}
  Shard = 0
  NShards = 1
INVARIANT All5OrDeviation
INVARIANT Dump
CHECK_DEADLOCK FALSE
