\* as built the decision is not total: TLC must find a shape that gets None or an exception
SPECIFICATION Spec
CONSTANTS
  AsBuilt = TRUE
INVARIANT Total
CHECK_DEADLOCK FALSE
