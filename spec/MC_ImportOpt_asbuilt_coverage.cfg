\* as built, TLC must find the lost import: one name imported from the same module at two levels
SPECIFICATION Spec
CONSTANTS
  AsBuilt = TRUE
  MaxLen = 2
  Shard = 0
  NShards = 1
INVARIANT Coverage
CHECK_DEADLOCK FALSE
