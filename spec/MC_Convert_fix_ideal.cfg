\* C08 on the ideal rules: RT_f . RT_f = RT_f
SPECIFICATION Spec
CONSTANTS
  Mode = "fix"
  MaxLen = 4
  MaxParams = 2
  Enabled = {}
  FixFmts = {"class", "pydantic", "function", "argparse", "docstring"}
  Shard = 0
  NShards = 1
PROPERTY Fix
CHECK_DEADLOCK FALSE
