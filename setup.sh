#!/bin/sh
# offline setup: jsonschema into /verif/.deps (the repo's /venv stays untouched), then a SANY smoke test
set -e
cd /verif
mkdir -p .deps evidence replays
if ! PYTHONPATH=/verif/.deps /venv/bin/python -c "import jsonschema" 2>/dev/null; then
  PIP_NO_INDEX=1 /venv/bin/pip install --quiet --no-index --find-links /opt/veriftools/wheels --target /verif/.deps jsonschema
fi
cd /verif/spec
for f in *.tla; do
  case "$f" in ImportsData.tla|Trace*.tla) continue;; esac
  grep -q "EXTENDS.*ImportsData\|IOEnv" "$f" && continue
  tla-sany "$f" > /tmp/verif-sany.$$ 2>&1 || { cat /tmp/verif-sany.$$; rm -f /tmp/verif-sany.$$; echo "SANY failed on $f"; exit 1; }
done
rm -f /tmp/verif-sany.$$
echo setup-ok
