"""X04 -- the two line scanners of cdd/shared/pure_utils.py conform to LineScan.tla.   (Specification coverage, not a listed property.)

TLC: LineScan.tla -- the as-built scanners (quote-parity comment cutter, look-back bracket counter) against Python's own reading of a line:
     the agreement invariants must be REFUTED (MC_LineScan_comment.cfg, MC_LineScan_balance.cfg).
R:   every line of <= MaxLen characters over the 8-symbol alphabet is concretised and handed to the REAL parse_comment_from_line and
     balanced_parentheses: they must answer what the transcription (AsBuilt*) answers.  The other half of the specification is bound too:
     on every such line that CPython's tokenizer accepts, the comment column of Designed must be the tokenizer's.
"""

import io
import json
import tokenize

from harness.common import NCPU, MachineryError, pmap

SYM = {"q": "'", "d": '"', "h": "#", "b": "\\", "o": "(", "c": ")", "s": " ", "x": "a"}


def concretise(line):
    return "".join(SYM[c] for c in line)


def tokenizer_cut(text):
    """-> the length of the line without its comment according to CPython's tokenizer, or None if the line does not tokenize"""
    try:
        toks = list(tokenize.generate_tokens(io.StringIO(text + "\n").readline))
    except (tokenize.TokenError, SyntaxError, IndentationError):
        return None
    for t in toks:
        if t.type == tokenize.ERRORTOKEN:
            return None
    for t in toks:
        if t.type == tokenize.COMMENT:
            return len(text[:t.start[1]].rstrip(" "))
    return len(text)


def run_batch(cases):
    import cdd.shared.pure_utils as pu

    out = []
    for c in cases:
        text = concretise(c["line"])
        fails = []
        try:
            got = pu.parse_comment_from_line(text)
            if got != text[:c["acut"]]:
                fails.append("parse_comment_from_line({!r}) = {!r} but LineScan!AsBuiltCut keeps {!r}".format(text, got, text[:c["acut"]]))
        except Exception as e:  # noqa
            fails.append("parse_comment_from_line({!r}) raises {}".format(text, type(e).__name__))
        try:
            got = pu.balanced_parentheses(text)
            if bool(got) != bool(c["abal"]):
                fails.append("balanced_parentheses({!r}) = {} but LineScan!AsBuiltBalanced says {}".format(text, got, c["abal"]))
        except Exception as e:  # noqa
            fails.append("balanced_parentheses({!r}) raises {}".format(text, type(e).__name__))
        oracle = None
        # an indented line, or one that starts with a continuation, is not a statement of its own: keep to lines that start with code
        if c["wf"] and text[:1] not in (" ", ""):
            tc = tokenizer_cut(text)
            if tc is not None:
                oracle = tc == c["dcut"]
                if not oracle:
                    fails.append("CPython's tokenizer keeps {!r} of {!r} but LineScan!DesignedCut keeps {!r}".format(text[:tc], text, text[:c["dcut"]]))
        out.append({"fails": fails, "oracle": oracle})
    return out


def check(run, replay=None):
    quick = run.tier == "quick"
    n = 4 if quick else 5
    run.rule = ("case = a line of <= {} characters over the alphabet quote / double quote / hash / backslash / opening / closing bracket / "
                "blank / other ({} lines); the real scanners must answer what the transcription answers, and the designed half what "
                "CPython's tokenizer answers").format(n, sum(8 ** k for k in range(n + 1)))
    run.assumptions += ["X04 is specification coverage, not one of the listed properties",
                        "CPython's tokenize module is the oracle for the designed half (lines it rejects are skipped)"]
    for cfg, inv in (("MC_LineScan_comment.cfg", "CommentAgrees"), ("MC_LineScan_balance.cfg", "BalanceAgrees")):
        r = run.tlc("LineScan", cfg, expect_ok=False, workers=1, timeout=900, constants={"MaxLen": 4})
        if r.violated != inv:
            raise MachineryError("LineScan.tla does not refute {} (the as-built scanners agree with Python's reading?)".format(inv))
    r = run.tlc("LineScan", "MC_LineScan_dump.cfg", shards=8, timeout=1800, constants={"MaxLen": n})
    cases = r.printed
    want = sum(8 ** k for k in range(n + 1))
    if len(cases) != want:
        raise MachineryError("LineScan dump produced {} lines, expected {}".format(len(cases), want))
    k = 0
    oracle_n = 0
    disagree = {"comment": 0, "balance": 0}
    for rb in pmap(run_batch, [cases[i:i + 512] for i in range(0, len(cases), 512)], chunksize=1):
        for res in rb:
            c = cases[k]
            k += 1
            run.replayed += 1
            key = "".join(c["line"])
            if c["wf"] and c["acut"] != c["dcut"]:
                disagree["comment"] += 1
            if c["wf"] and c["abal"] != c["dbal"]:
                disagree["balance"] += 1
            if res["oracle"] is not None:
                oracle_n += 1
            if res["fails"]:
                run.violation("; ".join(res["fails"])[:500], {"line": c["line"], "text": concretise(c["line"])}, key=key)
            else:
                run.held(key if c["line"] else None)
            if len(run.samples) < 3 and c["wf"] and c["acut"] != c["dcut"]:
                run.sample({"text": concretise(c["line"]), "as_built_keeps": concretise(c["line"])[:c["acut"]],
                            "python_keeps": concretise(c["line"])[:c["dcut"]]})
    run.extra["lines_checked_against_the_tokenizer"] = oracle_n
    run.extra["well_formed_lines_on_which_as_built_and_designed_disagree"] = disagree
    run.exhaustive = True
