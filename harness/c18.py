"""C18 -- every public module imports cleanly on its own, in any order.

X: ImportsData.tla is extracted from /repo's working tree on every run.
TLC: NoFailure for every single start and every ordered pair (exhaustive in the model, both tiers).
R: every start module (and a seeded sample / all ordered pairs) in real fresh interpreters; the
   interpreter's exit status is the verdict, the model's verdict is compared in both directions
   (model-only failure = MODEL-DRIFT).  SameNames is evaluated on the real public names.
"""

import json
import os
import random
import shutil
import subprocess
import tempfile
from concurrent.futures import ThreadPoolExecutor

from harness import imports_extract
from harness.common import NCPU, PY, REPO, SPEC, MachineryError

CODE = r"""
import sys, json, importlib
mods = sys.argv[1:]
out = {}
for m in mods:
    importlib.import_module(m)
for m in mods:
    out[m] = sorted(n for n in dir(sys.modules[m]) if not n.startswith('_'))
print('NAMES' + json.dumps(out))
"""


def fresh_import(mods, cwd, flags=()):
    env = dict(os.environ)
    env["PYTHONPATH"] = REPO
    env["PYTHONDONTWRITEBYTECODE"] = "1"
    p = subprocess.run([PY] + list(flags) + ["-c", CODE] + list(mods), cwd=cwd, env=env, stdout=subprocess.PIPE,
                       stderr=subprocess.PIPE, timeout=300)
    names = None
    for line in p.stdout.decode("utf-8", "replace").splitlines():
        if line.startswith("NAMES"):
            names = json.loads(line[5:])
    err = p.stderr.decode("utf-8", "replace").strip().splitlines()
    return p.returncode, names, (err[-1] if err else "")


def check(run, replay=None):
    work = tempfile.mkdtemp(prefix="verif-c18-")
    try:
        _check(run, replay, work)
    finally:
        shutil.rmtree(work, ignore_errors=True)


def _check(run, replay, work):
    specdir = os.path.join(work, "spec")
    os.makedirs(specdir)
    for f in ("Imports.tla", "MC_Imports_singles.cfg", "MC_Imports_pairs.cfg", "MC_Imports_dump.cfg"):
        shutil.copy(os.path.join(SPEC, f), specdir)
    try:
        files, prog, starts = imports_extract.write_tla(REPO, os.path.join(specdir, "ImportsData.tla"))
    except SyntaxError as e:
        run.violation("a package module does not even parse: {}".format(e), {"kind": "syntax"})
        return
    cwd = os.path.join(work, "cwd")
    os.makedirs(cwd)
    run.rule = ("start = one public (non-test) module or an ordered pair of them; distinct = distinct start "
                "tuples run in a real fresh interpreter; the model covers every single and every ordered pair")
    run.extra["modules_in_universe"] = len(files)
    run.extra["start_modules"] = len(starts)
    run.extra["statements_extracted"] = sum(len(v) for v in prog.values())
    run.assumptions += [
        "function bodies are not executed at import time (only decorators/defaults/annotations/class bodies are)",
        "imports of modules outside the package are atomic and succeed",
        "try/except ImportError handlers at module level guard stdlib imports only",
    ]

    if replay:
        with open(replay) as f:
            case = json.load(f)["case"]
        rc, names, err = fresh_import(case["start"], cwd)
        if rc != 0:
            run.violation("import {} fails in a fresh interpreter: {}".format("; import ".join(case["start"]), err), case)
        else:
            run.held(tuple(case["start"]))
        run.replayed += 1
        return

    # ---------------- TLC: singles ----------------
    r = run.tlc("Imports", "MC_Imports_singles.cfg", expect_ok=False, workers=1, spec_dir=specdir)
    if r.violated not in (None, "NoFailure"):
        raise MachineryError("Imports.tla: {} violated -- the import machine model is inconsistent".format(r.violated))
    if r.violated == "NoFailure":
        r = run.tlc("Imports", "MC_Imports_dump.cfg", workers=1, spec_dir=specdir)
    model_single = {tuple(d["start"]): d for d in r.printed}
    if len(model_single) != len(starts):
        raise MachineryError("model produced {} single verdicts for {} start modules".format(len(model_single), len(starts)))

    # ---------------- real: singles ----------------
    with ThreadPoolExecutor(max_workers=NCPU) as ex:
        real_single = dict(zip(starts, ex.map(lambda m: fresh_import([m], cwd), starts)))
    single_names = {}
    for m in starts:
        rc, names, err = real_single[m]
        run.replayed += 1
        mv = model_single[(m,)]
        if rc != 0:
            run.violation("`import {}` fails in a fresh interpreter: {}  [model: {} at {}]".format(
                m, err, mv["failed"], mv["at"]), {"kind": "single", "start": [m]}, key=(m,))
        else:
            run.held((m,))
            single_names[m] = names[m]
            if mv["failed"] != "no":
                run.model_drift("Imports.tla predicts `import {}` fails ({} at {}) but the interpreter succeeds".format(
                    m, mv["failed"], mv["at"]))
    run.sample({"start": [starts[0]], "model": model_single[(starts[0],)], "real_rc": real_single[starts[0]][0]})
    # "a fresh interpreter" is not one configuration: the same single imports with assertions and docstrings stripped (-OO; -O too in the
    # thorough tier).  What an import statement does does not depend on these flags -- the model has one verdict per module -- so a module
    # that imports plainly and fails here fails through something its top-level code computes (a `__doc__` that is None, an `assert`)
    for flags in ((("-OO",),) if run.tier == "quick" else (("-OO",), ("-O",))):
        with ThreadPoolExecutor(max_workers=NCPU) as ex:
            flagged = dict(zip(starts, ex.map(lambda m: fresh_import([m], cwd, flags), starts)))
        for m in starts:
            rc, names, err = flagged[m]
            run.replayed += 1
            if rc != 0 and real_single[m][0] == 0:
                run.violation("`python {} -c 'import {}'` fails in a fresh interpreter: {}".format(" ".join(flags), m, err),
                              {"kind": "single", "start": [m], "flags": list(flags)}, key=(m, flags))
            elif rc == 0:
                run.held((m, flags))
                if names[m] != single_names.get(m, names[m]):
                    run.violation("`import {}` leaves other public names bound under {}: {}".format(
                        m, " ".join(flags), sorted(set(names[m]) ^ set(single_names[m]))[:6]),
                        {"kind": "single", "start": [m], "flags": list(flags)}, key=(m, flags, "names"))
    run.extra["interpreter_flag_sets"] = ["", "-OO"] + ([] if run.tier == "quick" else ["-O"])

    # ---------------- TLC: all ordered pairs (exhaustive in the model, both tiers) ----------------
    r = run.tlc("Imports", "MC_Imports_pairs.cfg", expect_ok=False, shards=NCPU, spec_dir=specdir,
                constants={"Mode": '"pairs"'})
    if r.violated not in (None, "NoFailure"):
        raise MachineryError("Imports.tla: {} violated".format(r.violated))
    if r.violated == "NoFailure":
        r = run.tlc("Imports", "MC_Imports_dump.cfg", shards=NCPU, spec_dir=specdir, constants={"Mode": '"pairs"'})
    model_pair = {tuple(d["start"]): d for d in r.printed}
    if len(model_pair) != len(starts) ** 2:
        raise MachineryError("model produced {} pair verdicts, expected {}".format(len(model_pair), len(starts) ** 2))
    model_fail = sorted(k for k, d in model_pair.items() if d["failed"] != "no")
    # SameNames in the model: |bound| of each start module is order-independent
    model_names_diff = [
        k for k, d in model_pair.items()
        if d["failed"] == "no" and model_pair[(k[1], k[0])]["failed"] == "no"
        and d["names"] != model_pair[(k[1], k[0])]["names"][::-1]
    ]
    run.extra["model_failing_pairs"] = len(model_fail)
    run.extra["model_pairs"] = len(model_pair)

    # ---------------- real: ordered pairs ----------------
    rnd = random.Random(run.seed)
    unordered = [(a, b) for i, a in enumerate(starts) for b in starts[i + 1:]]
    if run.tier == "quick":
        chosen = rnd.sample(unordered, min(200, len(unordered)))
        # every model-only counterexample is concretised (bounded), plus pairs around modules that fail alone
        extra = [k for k in model_fail if k[0] != k[1]][:100] + [k for k in model_names_diff][:50]
        chosen += [tuple(sorted(k)) for k in extra]
        chosen = sorted(set(chosen))
    else:
        chosen = unordered
        run.exhaustive = True
    ordered = [p for a, b in chosen for p in ((a, b), (b, a))]
    with ThreadPoolExecutor(max_workers=NCPU) as ex:
        real_pair = dict(zip(ordered, ex.map(lambda p: fresh_import(list(p), cwd), ordered)))
    for (a, b) in chosen:
        ok = True
        for p in ((a, b), (b, a)):
            rc, names, err = real_pair[p]
            run.replayed += 1
            mv = model_pair[p]
            if rc != 0:
                ok = False
                run.violation("`import {}; import {}` fails in a fresh interpreter: {}  [model: {} at {}]".format(
                    p[0], p[1], err, mv["failed"], mv["at"]), {"kind": "pair", "start": list(p)}, key=p)
            else:
                run.held(p)
                if mv["failed"] != "no":
                    run.model_drift("Imports.tla predicts `import {}; import {}` fails ({} at {}) but the interpreter "
                                    "succeeds".format(p[0], p[1], mv["failed"], mv["at"]))
        if ok:
            n1, n2 = real_pair[(a, b)][1], real_pair[(b, a)][1]
            if n1 != n2:
                diff = {m: sorted(set(n1[m]) ^ set(n2[m])) for m in (a, b) if n1[m] != n2[m]}
                run.violation("public names differ with import order for ({}, {}): {}".format(a, b, diff),
                              {"kind": "pair", "start": [a, b]}, count=False)
            elif (a, b) in model_names_diff or (b, a) in model_names_diff:
                run.model_drift("Imports.tla predicts order-dependent names for ({}, {})".format(a, b))
    if ordered:
        run.sample({"start": list(ordered[0]), "model": model_pair[ordered[0]], "real_rc": real_pair[ordered[0]][0]})
    run.extra["real_pairs_run"] = len(ordered)
