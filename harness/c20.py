"""C20 -- exmod --dry-run writes nothing; a real run stays inside the output directory.

TLC: Exmod.tla -- DryRunPure, UnderOut, SourceUntouched, ExcludedSilent over all layouts (1..3 levels) x emit kind x
     recursive x blacklist/whitelist x dry-run x output directory pre-existing or not (832 option records).
R+V: every option record is laid out as a real package tree in a scratch directory; the real `exmod` command runs
     in-process under the audit-hook recorder; the file system (paths, sizes, sha256) is snapshotted before and after.
     Verdicts: the four predicates on the real snapshots + every generated .py file is valid Python whose __all__ names
     symbols it defines or imports; the audit-event trace is validated by TLC against the Effects monitor.
"""

import ast
import contextlib
import hashlib
import io
import json
import os
import random
import shutil
import sys
import tempfile

from harness.common import NCPU, MachineryError, pmap

MODSRC = {
    "a": '''"""a"""

from typing import Optional


class Alpha(object):
    """
    Alpha class

    :cvar x: the x
    :cvar y: the y
    :cvar opt: the opt"""

    x: int = 1
    y: str = "q"
    opt: Optional[str] = None


def helper(z: int = 3) -> int:
    """
    helper

    :param z: the z
    :type z: ```int```

    :return: z
    :rtype: ```int```
    """
    return z


__all__ = ["Alpha", "helper"]
''',
    "g": '''"""g"""

from typing import Optional


class Gamma(object):
    """
    Gamma class

    :cvar w: the w
    :cvar tag: the tag"""

    w: float = 0.5
    tag: Optional[str] = None


__all__ = ["Gamma"]
''',
    "d": '''"""d"""


class Delta(object):
    """
    Delta class

    :cvar v: the v"""

    v: bool = True


__all__ = ["Delta"]
''',
}


def layout(root, pkg, levels, deep="deep", reexport="flat"):
    p = os.path.join(root, "src", pkg)
    os.makedirs(p)
    inits = {1: 'from {0}.a import Alpha, helper\n\n__all__ = ["Alpha", "helper"]\n'}
    if reexport == "nested":
        inits = {1: 'from {0}.a import Alpha, helper\nfrom {0}.sub import Gamma\n\n__all__ = ["Alpha", "helper", "Gamma"]\n'}
    with open(os.path.join(p, "__init__.py"), "w") as f:
        f.write('"""pkg"""\n\n' + inits[1].format(pkg))
    with open(os.path.join(p, "a.py"), "w") as f:
        f.write(MODSRC["a"])
    if levels >= 2:
        s = os.path.join(p, "sub")
        os.makedirs(s)
        with open(os.path.join(s, "__init__.py"), "w") as f:
            if reexport == "nested" and levels >= 3:
                f.write('"""sub"""\n\nfrom {0}.sub.g import Gamma\nfrom {0}.sub.{1} import Delta\n\n__all__ = ["Gamma", "Delta"]\n'.format(pkg, deep))
            else:
                f.write('"""sub"""\n\nfrom {0}.sub.g import Gamma\n\n__all__ = ["Gamma"]\n'.format(pkg))
        with open(os.path.join(s, "g.py"), "w") as f:
            f.write(MODSRC["g"])
    if levels >= 3:
        d = os.path.join(p, "sub", deep)
        os.makedirs(d)
        with open(os.path.join(d, "__init__.py"), "w") as f:
            f.write('"""deep"""\n\nfrom {0}.sub.{1}.d import Delta\n\n__all__ = ["Delta"]\n'.format(pkg, deep))
        with open(os.path.join(d, "d.py"), "w") as f:
            f.write(MODSRC["d"])


DOTTED = {"a": "{}.a", "g": "{}.sub.g", "d": "{}.sub.deep.d", "self": "{}.sub"}


def snapshot(root):
    out = {}
    for d, dirs, files in os.walk(root):
        dirs.sort()
        rel = os.path.relpath(d, root)
        out[rel + os.sep] = "dir"
        for f in sorted(files):
            p = os.path.join(d, f)
            with open(p, "rb") as fh:
                out[os.path.join(rel, f)] = hashlib.sha256(fh.read()).hexdigest()[:16]
    return out


def run_case(args):
    case, workroot, idx = args
    from harness import effects
    import cdd.__main__ as cli

    o = case["o"]
    work = tempfile.mkdtemp(prefix="c20-", dir=workroot)
    pkg = "vpkg{}".format(idx)
    deep = pkg + "_ext" if o.get("deepname") == "rootish" else "deep"
    layout(work, pkg, o["levels"], deep, o.get("reexport", "flat"))
    out = os.path.join(work, "out")
    if o["out_exists"]:
        os.makedirs(out)
    cwd = os.path.join(work, "cwd")
    os.makedirs(cwd)
    emit = o["emit"]
    target = pkg if o.get("expose", "top") == "top" else pkg + ".sub"
    argv = ["exmod", "-m", target, "-o", out, "--emit", "sqlalchemy" if emit == "sqlalchemy_submodule" else emit]
    if emit == "sqlalchemy_submodule":
        argv.append("--emit-sqlalchemy-submodule")
    if o["recursive"]:
        argv.append("--recursive")
    if o["dry"]:
        argv.append("--dry-run")
    for m in o["black"]:
        argv += ["--blacklist", "{}.{}".format(pkg, deep) if m == "deep" else DOTTED[m].format(pkg)]
    for m in o["white"]:
        argv += ["--whitelist", DOTTED[m].format(pkg)]
    sys.path.insert(0, os.path.join(work, "src"))
    old = os.getcwd()
    os.chdir(cwd)
    err = None
    if o.get("prior"):
        # the history: an earlier real run of the same command into the same directory (not judged here)
        try:
            with contextlib.redirect_stdout(io.StringIO()), contextlib.redirect_stderr(io.StringIO()):
                cli.main([a for a in argv if a != "--dry-run"])
        except (SystemExit, Exception):  # noqa
            pass
        for m in [m for m in sys.modules if m == pkg or m.startswith(pkg + ".")]:
            sys.modules.pop(m, None)
    before = snapshot(work)
    rec = effects.Recorder(outputs=[out])
    try:
        with effects.recording(rec):
            try:
                with contextlib.redirect_stdout(io.StringIO()), contextlib.redirect_stderr(io.StringIO()):
                    cli.main(argv)
            except SystemExit as e:
                err = "SystemExit"
            except Exception as e:  # noqa
                err = "{}: {}".format(type(e).__name__, str(e)[:80])
    finally:
        os.chdir(old)
        sys.path.remove(os.path.join(work, "src"))
        for m in [m for m in sys.modules if m == pkg or m.startswith(pkg + ".")]:
            sys.modules.pop(m, None)
    after = snapshot(work)
    created = sorted(set(after) - set(before))
    changed = sorted(k for k in before if k in after and before[k] != after[k])
    deleted = sorted(set(before) - set(after))
    fails = []
    if o["dry"]:
        if created or changed or deleted:
            fails.append(("DryRunPure", "--dry-run created {} changed {} deleted {}".format(created[:4], changed[:3], deleted[:3])))
    else:
        outside = [p for p in created + changed + deleted if not (p == "out" + os.sep or p.startswith("out" + os.sep))]
        if outside:
            fails.append(("UnderOut", "paths outside the output directory were touched: {}".format(outside[:4])))
    src_touched = [p for p in created + changed + deleted if p.startswith("src" + os.sep)]
    if src_touched:
        fails.append(("SourceUntouched", "the source package was modified: {}".format(src_touched[:4])))
    if not o["dry"]:
        leaf_paths = {}
        for p in created:
            for comp in p.split(os.sep):
                leaf_paths.setdefault(comp[:-3] if comp.endswith(".py") else comp, []).append(p)
        for m in case["excluded"]:
            if m in leaf_paths:
                fails.append(("ExcludedSilent", "excluded module {} produced output: {}".format(m, leaf_paths[m][:3])))
        for p in created:
            if p.endswith(".py"):
                with open(os.path.join(work, p)) as f:
                    text = f.read()
                try:
                    tree = ast.parse(text)
                except SyntaxError as e:
                    fails.append(("GeneratedValid", "generated file {} is not valid Python: {}".format(p, e)))
                    continue
                bad = _all_undefined(tree)
                if bad:
                    fails.append(("GeneratedValid", "generated file {} lists {} in __all__ but neither defines nor imports them".format(p, bad)))
    res = {"case": case, "argv": argv[1:], "fails": fails, "events": [e for e in rec.events if e["k"] != "exec"], "err": err,
           "created": created[:12],
           "detail": [d for e, d in zip(rec.events, rec.detail) if e["k"] != "exec"]}
    shutil.rmtree(work, ignore_errors=True)
    return res


def _all_undefined(tree):
    names = None
    defined = set()
    for n in tree.body:
        if isinstance(n, (ast.FunctionDef, ast.ClassDef, ast.AsyncFunctionDef)):
            defined.add(n.name)
        elif isinstance(n, (ast.Import, ast.ImportFrom)):
            for a in n.names:
                defined.add((a.asname or a.name).split(".")[0])
        elif isinstance(n, (ast.Assign, ast.AnnAssign)):
            tg = n.targets if isinstance(n, ast.Assign) else [n.target]
            for t in tg:
                for x in ast.walk(t):
                    if isinstance(x, ast.Name):
                        defined.add(x.id)
                        if x.id == "__all__" and n.value is not None:
                            try:
                                names = list(ast.literal_eval(n.value))
                            except Exception:
                                names = None
    if names is None:
        return []
    return [x for x in names if x not in defined]


def _batch(items):
    return [run_case(a) for a in items]


FINDING_OF = {"DryRunPure": "dryrun_sqlalchemy_submodule_writes", "ExcludedSilent": "filters_ignored_for_top_level_package"}


def check(run, replay=None):
    work = tempfile.mkdtemp(prefix="verif-c20-")
    try:
        _check(run, replay, work)
    finally:
        shutil.rmtree(work, ignore_errors=True)


def _check(run, replay, work):
    from harness import conv

    run.rule = ("case = option record (package tree of 1..3 levels, emit kind, recursive, blacklist/whitelist of one module, dry-run, "
                "output directory pre-existing or not) laid out as a real package and run through the real exmod command; "
                "distinct = distinct option records")
    run.assumptions += ["exmod runs in-process (cdd.__main__.main) with the package's parent directory on sys.path",
                        "file-system effects are observed by snapshots of the scratch tree and by audit events"]
    run.tlc("Exmod", "MC_Exmod_ideal.cfg", workers=4, timeout=600)
    r = run.tlc("Exmod", "MC_Exmod_dump.cfg", shards=4, constants={"Enabled": conv.enabled_constant(run)}, timeout=600)
    cases = r.printed
    seen = {d for c in cases for d in c["devs"]}
    missing = sorted(set(run.known) - seen)
    if missing:
        raise MachineryError("listed C20 findings {} are unreachable in Exmod.tla".format(missing))
    if replay:
        with open(replay) as f:
            want = json.load(f)["case"]["case"]["o"]
        cases = [c for c in cases if c["o"] == want]
    elif run.tier == "quick":
        rnd = random.Random(run.seed)
        dry = [c for c in cases if c["o"]["dry"]]
        wet = [c for c in cases if not c["o"]["dry"]]
        # strata that a uniform sample would mostly miss: filters on a dotted exposed package, histories, prefix-sharing names
        def rare(c):
            o = c["o"]
            return o.get("expose") == "sub" and (o["black"] or o["white"]) or o.get("prior") or o.get("deepname") == "rootish" or o.get("reexport") == "nested"
        special = [c for c in cases if rare(c)]
        rest_dry = [c for c in dry if not rare(c)]
        rest_wet = [c for c in wet if not rare(c)]
        cases = rnd.sample(special, min(300, len(special))) + rnd.sample(rest_dry, min(250, len(rest_dry))) + rnd.sample(rest_wet, min(250, len(rest_wet)))
    else:
        run.exhaustive = True
    items = [(c, work, k) for k, c in enumerate(cases)]
    results = []
    for rb in pmap(_batch, [items[k:k + 4] for k in range(0, len(items), 4)], chunksize=1):
        results += rb
    # ---- V: audit-event traces against the Effects monitor ----
    traces = [{"tid": str(k), "api": "exmod_dry" if res["case"]["o"]["dry"] else "exmod", "events": res["events"]}
              for k, res in enumerate(results)]
    traces.append({"tid": "CORRUPT-dry-write", "api": "exmod_dry", "events": [{"k": "mkdir", "a": "output"}]})
    tf = os.path.join(work, "effects.json")
    with open(tf, "w") as f:
        json.dump(traces, f)
    r = run.tlc("TraceEffects", "MC_TraceEffects.cfg", workers=1, env={"TRACE_FILE": tf}, timeout=1200)
    rejected = {d["reject"]: d for d in r.printed if isinstance(d, dict) and "reject" in d}
    if "CORRUPT-dry-write" not in rejected:
        raise MachineryError("binding demonstration failed: TraceEffects accepted a write during a dry run")
    del rejected["CORRUPT-dry-write"]
    for k, res in enumerate(results):
        run.replayed += 1
        case = res["case"]
        key = json.dumps(case["o"], sort_keys=True)
        for d in case["devs"]:
            run.trigger(d)
        fails = list(res["fails"])
        if str(k) in rejected:
            at = rejected[str(k)]["at"]
            clause = "DryRunPure" if case["o"]["dry"] else "UnderOut"
            if not any(c == clause for c, _ in fails):
                fails.append((clause, "audit event {} ({}) is not allowed".format(res["events"][at - 1], res["detail"][at - 1][:100])))
        label = "exmod {}".format(" ".join(res["argv"][4:]))
        if not fails:
            run.held(key)
        else:
            unexplained = [(c, m) for c, m in fails if FINDING_OF.get(c) not in case["devs"]]
            if unexplained:
                run.violation("{} (levels={}, out_exists={}): {}".format(label, case["o"]["levels"], case["o"]["out_exists"],
                                                                          "; ".join(m for _, m in unexplained[:3])),
                              {"case": case, "argv": res["argv"], "err": res["err"]}, key=key)
            else:
                for c, m in fails:
                    run.finding(FINDING_OF[c], "{}: {}".format(label, m), case={"case": case}, key=key)
        if len(run.samples) < 3 and k % 97 == 3:
            run.sample({"argv": res["argv"], "created": res["created"], "events": res["events"][:5], "error": res["err"]})
    run.extra["runs_with_error_exit"] = sum(1 for r_ in results if r_["err"])
