"""C06 -- the emitted JSON-schema is valid, self-consistent and round-trips.

TLC: JsonSchema.tla -- Valid (SchemaOK) and RoundTrip on the ideal rules; ...OrDeviation on the as-built rules.
R:   every dumped interface is concretised and emitted by the real json_schema emitter; the document is serialised and
     judged with the external `jsonschema` package (draft 2020-12 meta-schema, validation of each default against its own
     property schema, pattern acceptance of members and near-misses) and by the clauses of the statement; the real parser
     reads it back and the result is compared with the interface.
"""

import contextlib
import copy
import io
import json
import random
from collections import OrderedDict

from harness import conv
from harness import gamma as G
from harness.common import NCPU, MachineryError, pmap

CLAUSE_FINDING = {"valid_schema": "empty_description_is_null", "parse_raises": "empty_description_is_null",
                  "pattern_exact": "literal_pattern_unanchored", "back_default": "none_default_lost",
                  "emit_raises": "list_type_unsupported"}


def judge(args):
    case, seed = args
    import jsonschema
    import cdd.json_schema.emit
    import cdd.json_schema.parse

    g = G.Gamma(seed)
    i = case["i"]
    salt = conv.salt_of({"cfg": {}, "i": i}, seed)
    ir = g.iface(i, salt)
    names = list(ir["params"].keys())
    fails = []
    res = {"fails": fails, "doc": None}
    try:
        with contextlib.redirect_stdout(io.StringIO()), contextlib.redirect_stderr(io.StringIO()):
            schema = cdd.json_schema.emit.json_schema(copy.deepcopy(ir))
        text = json.dumps(schema)
    except Exception as e:  # noqa
        fails.append(("emit_raises", "emitter / json.dumps raises {}: {}".format(type(e).__name__, str(e)[:100])))
        return res
    res["doc"] = text
    doc = json.loads(text, object_pairs_hook=OrderedDict)
    try:
        jsonschema.Draft202012Validator.check_schema(doc)
    except jsonschema.SchemaError as e:
        fails.append(("valid_schema", "not a valid draft 2020-12 schema: {}".format(str(e).splitlines()[0][:120])))
    props = doc.get("properties", {})
    want_required = [n for n, p in zip(names, i["params"]) if not p["typ"].startswith("Opt_")]
    if sorted(doc.get("required", [])) != sorted(want_required):
        fails.append(("required", "required {} != non-Optional parameters {}".format(doc.get("required"), want_required)))
    if list(props.keys()) != names:
        fails.append(("props", "properties {} != parameters {}".format(list(props.keys()), names)))
        return res
    for n, p in zip(names, i["params"]):
        ps = props[n]
        if "default" in ps:
            try:
                jsonschema.validate(ps["default"], {k: v for k, v in ps.items() if k != "default"},
                                    cls=jsonschema.Draft202012Validator)
            except jsonschema.ValidationError as e:
                fails.append(("default_conforms", "{}: default {!r} does not validate against its own property schema: {}".format(
                    n, ps["default"], str(e).splitlines()[0][:80])))
            except jsonschema.SchemaError:
                pass
        if p["typ"] in G.LIT_MEMBERS:
            members = G.LIT_MEMBERS[p["typ"]]
            pat = ps.get("pattern")
            if pat is None and "enum" not in ps:
                fails.append(("pattern_exact", "{}: Literal type emitted without pattern/enum".format(n)))
            else:
                v = jsonschema.Draft202012Validator({k: ps[k] for k in ("type", "pattern", "enum") if k in ps})
                bad_m = [m for m in members if not v.is_valid(m)]
                near = [x for x in [members[0] + members[-1], "x" + members[0], members[0] + "x", members[0] + " " + members[-1],
                                    members[0] * 2, "", members[0].upper() + "Z", members[0] + "\n"] if x not in members and v.is_valid(x)]
                if bad_m or near:
                    fails.append(("pattern_exact", "{}: pattern {!r} rejects members {} / accepts non-members {}".format(
                        n, pat, bad_m, near)))
    # read it back
    try:
        with contextlib.redirect_stdout(io.StringIO()), contextlib.redirect_stderr(io.StringIO()):
            back = cdd.json_schema.parse.json_schema(copy.deepcopy(doc))
        from harness import real
        rb = real.plain(back)
        # what the parser handed out is kept (the caller's own object) next to what it looked like then: see _batch
        res["_held"] = (back, json.dumps(rb, sort_keys=True, default=repr))
    except Exception as e:  # noqa
        fails.append(("parse_raises", "the parser raises on the emitted schema: {}: {}".format(type(e).__name__, str(e)[:100])))
        return res
    got = rb["params"]
    if [n for n, _ in got] != names:
        fails.append(("back_names", "re-parsed names {} != {}".format([n for n, _ in got], names)))
        return res
    for (n, e), p, k in zip(got, i["params"], range(len(names))):
        want_t = G.TYP[p["typ"]]
        if _canon_typ(e.get("typ")) != _canon_typ(want_t):
            fails.append(("back_typ", "{}: re-parsed type {!r} != {!r}".format(n, e.get("typ"), want_t)))
        has, val = g.default(p["def"], p["typ"], salt + k)
        if has != ("default" in e) or (has and not G.same_default(e["default"], val)):
            fails.append(("back_default", "{}: re-parsed default {} != {}".format(n, e.get("default", "absent"), repr(val) if has else "absent")))
        hd, d = g.doc(p["doc"], n)
        if G.canon_doc(e.get("doc")) != G.canon_doc(d if hd else ""):
            fails.append(("back_doc", "{}: re-parsed description {!r} != {!r}".format(n, e.get("doc"), d)))
    want_doc = {"absent": "", "one": "The summary line", "multi": "The summary line\n\nA longer paragraph of prose."}[i["doc"]]
    # paragraph by paragraph: indentation and line ends inside a paragraph are layout, the break between two paragraphs is prose
    if _paragraphs(rb["doc"]) != _paragraphs(want_doc) and i["ret"]["typ"] == "none":
        fails.append(("back_doc", "re-parsed interface description {!r} != {!r}".format(rb["doc"], want_doc)))
    return res


def _paragraphs(text):
    import re

    return [G.canon_doc(part) for part in re.split(r"\n[ \t]*\n", (text or "").strip()) if part.strip()]


def _canon_typ(t):
    """type strings compared up to whitespace; Literal members as a set"""
    if t is None:
        return None
    t = t.replace(" ", "").replace('"', "'")
    import re
    return re.sub(r"Literal\[([^\]]*)\]", lambda m: "Literal[" + ",".join(sorted(m.group(1).split(","))) + "]", t)


def _batch(items):
    """a batch is one caller that parses many schemas and KEEPS the results (`[parse(s) for s in schemas]`): an interface, once returned,
    is the caller's; a later parse of another schema must not change it"""
    from harness import real

    out = [judge(a) for a in items]
    for res in out:
        held = res.pop("_held", None)
        if held is not None:
            now = json.dumps(real.plain(held[0]), sort_keys=True, default=repr)
            if now != held[1]:
                res["fails"].append(("back_aliased", "the interface returned for this schema was changed afterwards by the parse of ANOTHER schema: "
                                     "it read {} and now reads {}".format(held[1][:120], now[:120])))
    return out


def check(run, replay=None):
    try:
        import jsonschema  # noqa: F401
    except ImportError:
        raise MachineryError("jsonschema is not installed into /verif/.deps -- run MANIFEST.setup_cmd (sh /verif/setup.sh)")
    run.rule = ("case = interface of 0..2 (quick) / 0..2 exhaustive + up to 8 random (thorough) JSON-representable parameters x prose "
                "present/absent x return entry present/absent; distinct = distinct interfaces; every schema is validated with the "
                "jsonschema package and read back by the real parser")
    run.assumptions += ["the `jsonschema` package (draft 2020-12 validator) is the oracle for schema validity and instance validation"]
    if replay:
        with open(replay) as f:
            cases = [json.load(f)["case"]["case"]]
    else:
        quick = run.tier == "quick"
        run.tlc("JsonSchema", "MC_JsonSchema_ideal.cfg", constants={"MaxParams": 2}, workers=NCPU, timeout=3000)
        r = run.tlc("JsonSchema", "MC_JsonSchema_dump.cfg", shards=8, timeout=3000,
                    constants={"MaxParams": 2, "Enabled": conv.enabled_constant(run)})
        cases = r.printed
        seen = {d for c in cases for d in c["devs"]}
        missing = sorted(set(run.known) - seen)
        if missing:
            raise MachineryError("listed C06 findings {} are unreachable in JsonSchema.tla".format(missing))
        # 3..8 parameters: random compositions of enumerated single-parameter interfaces (the model's rules are per parameter)
        singles = [c for c in cases if len(c["i"]["params"]) == 1]
        rnd = random.Random(run.seed)
        for _ in range(200 if quick else 4000):
            k = rnd.randint(3, 8)
            parts = [rnd.choice(singles) for _ in range(k)]
            base = rnd.choice(singles)
            cases.append({"i": {"doc": base["i"]["doc"], "ret": base["i"]["ret"], "params": [p["i"]["params"][0] for p in parts]},
                          "devs": sorted({d for p in parts + [base] for d in p["devs"]
                                          if d != "empty_description_is_null" or (base["i"]["doc"] == "absent" and base["i"]["ret"]["typ"] == "none")}),
                          "schema": None, "back": None})
        run.exhaustive = True
    items = [(c, run.seed) for c in cases]
    n = 0
    for rb in pmap(_batch, [items[k:k + 64] for k in range(0, len(items), 64)], chunksize=1):
        for res in rb:
            case = cases[n]
            n += 1
            run.replayed += 1
            key = json.dumps(case["i"], sort_keys=True)
            for d in case["devs"]:
                run.trigger(d)
            label = conv._short(case["i"])
            if not res["fails"]:
                run.held(key if case["i"]["params"] else None)
            else:
                unexplained = [(c, m) for c, m in res["fails"] if CLAUSE_FINDING.get(c) not in case["devs"]]
                if unexplained:
                    run.violation("json_schema of {}: {}".format(label, "; ".join(m for _, m in unexplained[:3])),
                                  {"case": case, "document": res["doc"]}, key=key)
                else:
                    for fid in sorted({CLAUSE_FINDING[c] for c, _ in res["fails"]}):
                        run.finding(fid, "json_schema of {}: {}".format(label, next(m for c, m in res["fails"] if CLAUSE_FINDING[c] == fid)),
                                    case={"case": case}, key=key)
            if len(run.samples) < 3 and n % 301 == 1:
                run.sample({"i": case["i"], "document": (res["doc"] or "")[:400], "fails": res["fails"][:2]})
