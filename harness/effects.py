"""Effect recorder: sys.addaudithook -> abstract events of spec/Effects.tla (no source hooks in /repo)."""

import dis
import os
import sys
import sysconfig

from harness.common import REPO

_ACTIVE = [None]
_INSTALLED = [False]

CALL_OPS = {"CALL", "CALL_FUNCTION_EX", "CALL_KW", "CALL_INTRINSIC_1", "CALL_INTRINSIC_2", "IMPORT_NAME", "IMPORT_FROM",
            "IMPORT_STAR", "LOAD_METHOD", "PRECALL", "CALL_FUNCTION", "CALL_METHOD", "CALL_FUNCTION_KW"}
_ROOTS = None


def module_roots():
    global _ROOTS
    if _ROOTS is None:
        roots = {sysconfig.get_paths()[k] for k in ("stdlib", "platstdlib", "purelib", "platlib")}
        roots |= {os.path.realpath(p) for p in roots}
        roots.add(os.path.join(os.path.realpath(REPO), "cdd"))
        roots.add(os.path.realpath("/verif/.deps"))
        roots.add(os.path.dirname(os.path.abspath(__file__)))
        _ROOTS = tuple(r.rstrip(os.sep) + os.sep for r in roots)
    return _ROOTS


class Recorder(object):
    """Records abstract events while active.  `outputs`: paths (files or directories) the call may write;
    `inputs`: analysed source files (code compiled from them must never run); `sentinels`: module names that must
    never be imported."""

    def __init__(self, outputs=(), inputs=(), sentinels=(), analysed_modules=()):
        self.outputs = [os.path.realpath(p) for p in outputs]
        self.inputs = {os.path.realpath(p) for p in inputs}
        self.sentinels = set(sentinels)
        self.analysed = set(analysed_modules)
        self.events = []
        self.detail = []

    def where(self, path):
        try:
            if isinstance(path, bytes):
                path = path.decode()
            if not isinstance(path, str):
                return "devnull"          # a file descriptor
            if path in (os.devnull,):
                return "devnull"
            rp = os.path.realpath(path)
        except Exception:
            return "elsewhere"
        for o in self.outputs:
            if rp == o or rp.startswith(o.rstrip(os.sep) + os.sep):
                return "output"
        return "elsewhere"

    def add(self, k, a, detail):
        self.events.append({"k": k, "a": a})
        self.detail.append(detail)

    def on(self, event, args):
        if event == "exec":
            code = args[0]
            fn = getattr(code, "co_filename", "")
            try:
                rfn = os.path.realpath(fn) if fn and not fn.startswith("<") else fn
            except Exception:
                rfn = fn
            if rfn in self.inputs:
                shape = "inputfile"
            elif isinstance(rfn, str) and rfn.startswith(module_roots()) and os.path.exists(rfn):
                shape = "modulefile"
            else:
                ops = {i.opname for i in dis.get_instructions(code)}
                names_ok = all(n.isidentifier() and not n.startswith("__") for n in code.co_names)
                shape = "probe" if not (ops & CALL_OPS) and names_ok else "call"
            self.add("exec", shape, "{} names={}".format(fn, list(getattr(code, "co_names", ()))[:6]))
        elif event == "import":
            m = args[0]
            cls = "sentinel" if m in self.sentinels else "analysed" if m in self.analysed else "other"
            if cls != "other":
                self.add("import", cls, m)
        elif event == "open":
            path, mode, flags = (list(args) + [None, None, None])[:3]
            writing = (isinstance(mode, str) and any(c in mode for c in "wax+")) or \
                      (isinstance(flags, int) and flags & (os.O_WRONLY | os.O_RDWR | os.O_CREAT | os.O_TRUNC | os.O_APPEND))
            if writing:
                self.add("openw", self.where(path), str(path))
        elif event in ("os.mkdir", "os.makedirs"):
            self.add("mkdir", self.where(args[0]), str(args[0]))
        elif event in ("os.remove", "os.rmdir", "os.unlink", "shutil.rmtree"):
            self.add("remove", self.where(args[0]), str(args[0]))
        elif event in ("os.rename", "os.replace", "shutil.move", "shutil.copyfile", "shutil.copytree"):
            dst = args[1] if len(args) > 1 else args[0]
            self.add("rename", self.where(dst), str(dst))
        elif event in ("subprocess.Popen", "os.system", "os.exec", "os.posix_spawn", "os.spawn", "os.fork", "os.forkpty",
                       "pty.spawn"):
            self.add("spawn", "x", "{} {}".format(event, str(args)[:80]))
        elif event == "pickle.find_class":
            # un-pickling resolves (and then calls) whatever callable the DATA names: data taken from the analysed source is being run
            self.add("exec", "call", "pickle.find_class {}".format(str(args)[:80]))
        elif event.startswith("socket.") and event not in ("socket.__new__",):
            self.add("socket", "x", event)


def _hook(event, args):
    r = _ACTIVE[0]
    if r is not None:
        try:
            _ACTIVE[0] = None           # no re-entrancy while classifying
            r.on(event, args)
        finally:
            _ACTIVE[0] = r


def install():
    if not _INSTALLED[0]:
        sys.addaudithook(_hook)
        _INSTALLED[0] = True


class recording(object):
    def __init__(self, recorder):
        self.r = recorder

    def __enter__(self):
        install()
        module_roots()
        _ACTIVE[0] = self.r
        return self.r

    def __exit__(self, *a):
        _ACTIVE[0] = None
        return False
