"""X08 -- infer_imports conforms to InferImports.tla.   (Specification coverage, not a listed property.)

TLC: InferImports.tla -- Total, Cover, Sound, FirstHome, Sorted on the designed function; as built FirstHome and Sorted hold and TLC must
     REFUTE Total (a qualified generic / a list or an ellipsis inside a subscript raise), Cover (string annotations are not looked into) and
     Sound (assignment targets and references to classes the module defines itself are imported).
X:   the model's table of HOMES (which of typing, typing_extensions, collections.abc, sqlalchemy lists a symbol) is compared with the tables
     the code ships (DEFAULT_MODULES_TO_ALL) on every run.
R:   every module of <= MaxOcc occurrences (7 symbols x 12 syntactic positions) x both priority orders is rendered as real source, parsed and
     handed to the real infer_imports; the statements that come back (module, names, in order) or the exception class must be the as-built
     model's.
"""

import ast
import json
import os

from harness.common import MachineryError, pmap

HOMES = {"Optional": {"typing", "typing_extensions"}, "Column": {"sqlalchemy"}, "Text": {"typing", "typing_extensions", "sqlalchemy"},
         "Sequence": {"typing", "typing_extensions", "collections.abc", "sqlalchemy"}, "Buffer": {"typing_extensions", "collections.abc"},
         "Callable": {"typing", "typing_extensions", "collections.abc"}, "Foo": set(), "int": set()}


def render(m):
    lines = []
    for k, o in enumerate(m):
        s, p = o["sym"], o["pos"]
        lines += {
            "ann": ["v{} : {} = None".format(k, s)],
            "ann_arg": ["v{} : list[{}] = None".format(k, s)],
            "name": ["print({})".format(s)],
            "deco": ["@{}".format(s), "def f{}():".format(k), "    pass"],
            "base": ["class C{}({}):".format(k, s), "    pass"],
            "store": ["{} = 5".format(s)],
            "local_def": ["class {}:".format(s), "    pass", "w{} = {}()".format(k, s)],
            "str_ann": ["v{} : '{}' = None".format(k, s)],
            "attr": ["v{} : mod.{} = None".format(k, s)],
            "attr_sub": ["v{} : mod.{}[bool] = None".format(k, s)],
            "callable_list": ["v{} : Callable[[{}], str] = None".format(k, s)],
            "ellipsis": ["v{} : Callable[..., {}] = None".format(k, s)],
        }[p]
    return "\n".join(lines) + "\n"


def run_batch(cases):
    from cdd.shared.ast_utils import DEFAULT_MODULES_TO_ALL, DEFAULT_MODULES_TO_ALL_SQL_FIRST, infer_imports

    out = []
    for c in cases:
        src = render(c["m"])
        order = DEFAULT_MODULES_TO_ALL if c["order"] == "typing_first" else DEFAULT_MODULES_TO_ALL_SQL_FIRST
        try:
            got = infer_imports(ast.parse(src), modules_to_all=order)
            real = {"raises": "no", "stmts": [{"mod": n.module, "names": [a.name for a in n.names]} for n in (got or ())]}
            if any(not isinstance(n, ast.ImportFrom) or n.level or any(a.asname for a in n.names) for n in (got or ())):
                real["raises"] = "not plain `from m import names` statements"
        except Exception as e:  # noqa
            real = {"raises": type(e).__name__, "stmts": []}
        out.append(None if real == c["out"] else "returns {} but InferImports!Infer says {}  [source: {!r}]".format(real, c["out"], src))
    return out


def check(run, replay=None):
    n = 2
    run.rule = ("case = a module of <= {} occurrences [symbol, syntactic position] (7 symbols by their homes x 12 positions) x the two shipped "
                "priority orders; the real infer_imports must return the as-built model's statements, in order, or raise the same exception").format(n)
    run.assumptions += ["X08 is specification coverage, not one of the listed properties",
                        "at most one occurrence per module on which the as-built function raises"]
    # (X) the model's HOMES table against the tables the code ships
    from cdd.shared.ast_utils import DEFAULT_MODULES_TO_ALL, DEFAULT_MODULES_TO_ALL_SQL_FIRST

    for sym, homes in HOMES.items():
        real = {mod for mod, names in DEFAULT_MODULES_TO_ALL if sym in names}
        if real != homes or real != {mod for mod, names in DEFAULT_MODULES_TO_ALL_SQL_FIRST if sym in names}:
            run.model_drift("InferImports!Homes({}) = {} but the shipped tables say {}".format(sym, sorted(homes), sorted(real)))
    if [m for m, _ in DEFAULT_MODULES_TO_ALL] != ["typing", "typing_extensions", "collections.abc", "sqlalchemy"] or \
            [m for m, _ in DEFAULT_MODULES_TO_ALL_SQL_FIRST] != ["sqlalchemy", "typing", "typing_extensions", "collections.abc"]:
        run.model_drift("InferImports!OrderSeq is not the order of the shipped tables")
    run.tlc("InferImports", "MC_InferImports_designed.cfg", workers=4, timeout=900)
    run.tlc("InferImports", "MC_InferImports_asbuilt.cfg", workers=4, timeout=900)
    for cfg, inv in (("MC_InferImports_asbuilt_total.cfg", "Total"), ("MC_InferImports_asbuilt_cover.cfg", "Cover"),
                     ("MC_InferImports_asbuilt_sound.cfg", "Sound")):
        r = run.tlc("InferImports", cfg, expect_ok=False, workers=1, timeout=900)
        if r.violated != inv:
            raise MachineryError("InferImports.tla as built does not exhibit the recorded departure ({})".format(inv))
    r = run.tlc("InferImports", "MC_InferImports_dump.cfg", shards=8, timeout=1800, constants={"MaxOcc": n, "AsBuilt": "FALSE" if os.environ.get("X08_AGAINST_DESIGNED") else "TRUE"})
    cases = r.printed
    if replay:
        with open(replay) as f:
            want = json.load(f)["case"]
        cases = [c for c in cases if c["m"] == want["m"] and c["order"] == want["order"]]
    elif len(cases) != 2 * 6700:
        raise MachineryError("InferImports dump produced {} inputs, expected {}".format(len(cases), 2 * 6700))
    k = 0
    for rb in pmap(run_batch, [cases[i:i + 256] for i in range(0, len(cases), 256)], chunksize=1):
        for res in rb:
            c = cases[k]
            k += 1
            run.replayed += 1
            key = json.dumps([c["m"], c["order"]], sort_keys=True)
            if res is None:
                run.held(key if c["m"] else None)
            else:
                run.violation("infer_imports: {}".format(res[:400]), {"case": c}, key=key)
            if len(run.samples) < 2 and len(c["m"]) == 2 and len(c["out"]["stmts"]) == 2:
                run.sample({"module": render(c["m"]), "order": c["order"], "output": c["out"]})
    run.exhaustive = True
