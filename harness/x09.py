"""X09 -- quote / unquote conform to Quote.tla.   (Specification coverage, not a listed property.)

TLC: Quote.tla -- Idempotent, Inverse, QuotedOrEmpty hold over all strings of <= MaxLen characters (6-symbol alphabet) x 2 marks; AlwaysQuoted,
     Injective and Literal must be REFUTED (the empty string stays empty; a value that merely looks quoted is taken for quoted; the mark and a
     trailing backslash are not escaped).
R:   every string x mark through the real quote and unquote: results must be the model's.  Both halves of WellFormed are bound as well: for
     every emitted text and every input string, Quote!WellFormed must agree with CPython's own literal reader (ast.literal_eval).
"""

import ast
import json
import warnings

from harness.common import MachineryError, pmap

G = {"DQ": '"', "SQ": "'", "a": "a", "5": "5", "SP": " ", "BS": "\\"}


def text(seq):
    return "".join(G[c] for c in seq)


def python_reads(t):
    """does CPython's tokenizer read `t` as exactly ONE string literal token (adjacent literals are two)?"""
    import io
    import tokenize

    try:
        with warnings.catch_warnings():
            warnings.simplefilter("ignore")
            toks = [tk for tk in tokenize.generate_tokens(io.StringIO(t).readline)
                    if tk.type not in (tokenize.NEWLINE, tokenize.NL, tokenize.ENDMARKER)]
            if len(toks) != 1 or toks[0].type != tokenize.STRING or toks[0].string != t:
                return False
            ast.literal_eval(t)
        return True
    except (tokenize.TokenError, SyntaxError, ValueError, IndentationError):
        return False


def run_batch(cases):
    from cdd.shared.pure_utils import quote, unquote

    out = []
    for c in cases:
        s, mark = text(c["s"]), G[c["mark"]]
        fails = []
        try:
            q = quote(s, mark)
            if q != text(c["out"]):
                fails.append("quote({!r}, {!r}) = {!r} but Quote.tla says {!r}".format(s, mark, q, text(c["out"])))
            u = unquote(s)
            if u != text(c["unq"]):
                fails.append("unquote({!r}) = {!r} but Quote.tla says {!r}".format(s, u, text(c["unq"])))
        except Exception as e:  # noqa
            fails.append("raises {}: {}".format(type(e).__name__, str(e)[:80]))
        # the model's notion of a well-formed literal against CPython's (both the emitted text and the raw input)
        for what, seq, wf in (("output", c["out"], c["wf"]), ("input", c["s"], c["swf"])):
            if python_reads(text(seq)) != wf:
                fails.append("Quote!WellFormed({!r}) = {} but CPython {} it as one string literal".format(
                    text(seq), wf, "reads" if not wf else "does not read"))
        out.append(fails)
    return out


def check(run, replay=None):
    n = 3 if run.tier == "quick" else 4
    run.rule = ("case = a string of <= {} characters over (double quote, single quote, letter, digit, blank, backslash) x mark; the real quote / "
                "unquote must return the model's text; Quote!WellFormed must agree with ast.literal_eval on every text").format(n)
    run.assumptions += ["X09 is specification coverage, not one of the listed properties"]
    run.tlc("Quote", "MC_Quote_laws.cfg", workers=4, timeout=900, constants={"MaxLen": n})
    for cfg, inv in (("MC_Quote_always.cfg", "AlwaysQuoted"), ("MC_Quote_injective.cfg", "Injective"), ("MC_Quote_literal.cfg", "Literal")):
        r = run.tlc("Quote", cfg, expect_ok=False, workers=1, timeout=900)
        if r.violated != inv:
            raise MachineryError("Quote.tla does not exhibit the recorded departure ({})".format(inv))
    r = run.tlc("Quote", "MC_Quote_dump.cfg", shards=4, timeout=1800, constants={"MaxLen": n})
    cases = r.printed
    want = 2 * sum(6 ** k for k in range(n + 1))
    if replay:
        with open(replay) as f:
            w = json.load(f)["case"]
        cases = [c for c in cases if c["s"] == w["s"] and c["mark"] == w["mark"]]
    elif len(cases) != want:
        raise MachineryError("Quote dump produced {} inputs, expected {}".format(len(cases), want))
    k = 0
    n_bad_literal = 0
    for rb in pmap(run_batch, [cases[i:i + 256] for i in range(0, len(cases), 256)], chunksize=1):
        for fails in rb:
            c = cases[k]
            k += 1
            run.replayed += 1
            key = json.dumps([c["s"], c["mark"]])
            if not c["wf"] and c["s"]:
                n_bad_literal += 1
            if not fails:
                run.held(key if c["s"] else None)
            else:
                run.violation("; ".join(fails)[:400], {"case": c}, key=key)
            if len(run.samples) < 2 and len(c["s"]) == 3 and not c["wf"]:
                run.sample({"s": text(c["s"]), "mark": G[c["mark"]], "quoted": text(c["out"]), "python_reads_it": False})
    run.extra["non_empty_values_whose_quoted_text_python_cannot_read"] = n_bad_literal
    run.exhaustive = True
