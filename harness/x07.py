"""X07 -- the argparse option of one parameter conforms to ArgSpec.tla.   (Specification coverage, not a listed property.)

TLC: ArgSpec.tla -- as built: Derived (ParseArg o EmitArg is what FormatRules states for argparse: the four listed argparse departures are
     theorems about the two halves), WellFormedTyp, EmitInDomain; DefaultUsable must be REFUTED (required=True next to a default);
     designed: DefaultUsable, RequiredIffNoFallback hold and Derived must be REFUTED (non-vacuity of the derivation).
R:   emit -- every parameter [typ, def] of the shared domain is concretised (3 name/value variants) and handed to the real
     param2argparse_param; the keywords of the add_argument call it returns, projected, must be ArgSpec!EmitArg's record;
     parse -- every keyword record (896: type x choices x action x required x default x default-in-help), also those the emitter never
     writes, is built as a real add_argument call and handed to the real parse_out_param; the type (as a nesting) and the default kind it
     returns must be ArgSpec!ParseArg's.
"""

import ast
import json

from harness.common import MachineryError, pmap

DEFAULTS = {"int_pos": 5, "float_pos": 0.5, "bool_T": True, "str": "mnist", "str_empty": "", "NoneStr": "```(None)```",
            "code_paren": "```(operator.add(1, 2))```"}


def kind_of_default(v):
    if isinstance(v, bool):
        return "bool_T" if v else "bool_F"
    if isinstance(v, int):
        return "int_pos" if v != 0 else "int_zero"
    if isinstance(v, float):
        return "float_pos" if v != 0.0 else "zero_float"
    if isinstance(v, str):
        if v == "":
            return "str_empty"
        if v == "```(None)```":
            return "NoneStr"
        if v.startswith("```(") and v.endswith(")```"):
            return "code_paren"
        if v.startswith("```"):
            return "code_unparenthesised"
        return "str"
    return "other:" + type(v).__name__


def project_keywords(call):
    k = {"type": "none", "choices": False, "action": "none", "required": False, "default": "none"}
    for kw in call.keywords:
        if kw.arg == "type":
            k["type"] = kw.value.id if isinstance(kw.value, ast.Name) and kw.value.id in ("int", "float", "bool", "str", "loads") else "Path"
        elif kw.arg == "choices":
            k["choices"] = True
        elif kw.arg == "action":
            k["action"] = ast.literal_eval(ast.unparse(kw.value))
        elif kw.arg == "required":
            k["required"] = bool(ast.literal_eval(ast.unparse(kw.value)))
        elif kw.arg == "default":
            v = ast.literal_eval(ast.unparse(kw.value))
            kd = kind_of_default(v)
            # (EmitArg's kinds: every int is int_pos, every float float_pos, every bool bool_T)
            k["default"] = {"int_zero": "int_pos", "zero_float": "float_pos", "bool_F": "bool_T"}.get(kd, kd)
        elif kw.arg != "help":
            k["extra:" + kw.arg] = True
    return k


def typ_nesting(t):
    """'Optional[List[str]]' -> ['Optional', 'List', 'str'];  Literal[..] / Union[..] end the nesting"""
    out = []
    node = ast.parse(t, mode="eval").body
    while True:
        if isinstance(node, ast.Subscript) and isinstance(node.value, ast.Name):
            out.append(node.value.id)
            if node.value.id in ("Literal", "Union"):
                return out
            node = node.slice
        elif isinstance(node, ast.Name):
            out.append(node.id)
            return out
        else:
            out.append("?" + type(node).__name__)
            return out


def build_call(k):
    kws = []
    if k["type"] != "none":
        kws.append("type={}".format(k["type"]))
    if k["choices"]:
        kws.append("choices=('a', 'b')")
    if k["action"] != "none":
        kws.append("action={!r}".format(k["action"]))
    kws.append("help={!r}".format("the x. Defaults to 7" if k["helpdef"] else "the x"))
    if k["required"]:
        kws.append("required=True")
    if k["default"] != "none":
        kws.append("default={!r}".format(DEFAULTS[k["default"]]))
    return ast.parse("argument_parser.add_argument('--x', {})".format(", ".join(kws))).body[0]


def run_batch(cases):
    import copy

    from cdd.argparse_function.utils.emit_utils import parse_out_param
    from cdd.shared.ast_utils import param2argparse_param
    from harness import gamma as G

    out = []
    for c in cases:
        try:
            if c["mode"] == "emit":
                msgs = []
                for salt in (0, 1, 2):
                    i = {"doc": "one", "params": [{"typ": c["p"]["typ"], "def": c["p"]["def"], "doc": "plain"}],
                         "ret": {"typ": "none", "def": "absent", "doc": "absent"}}
                    ir = G.Gamma(0).iface(i, salt)
                    (name, prm), = ir["params"].items()
                    node = param2argparse_param((name, copy.deepcopy(dict(prm))), word_wrap=False, emit_default_doc=False)
                    got = project_keywords(node.value)
                    want = {x: c["k"][x] for x in ("type", "choices", "action", "required", "default")}
                    if got != want:
                        msgs.append("param2argparse_param({}: {!r}) writes {} but ArgSpec!EmitArg says {}".format(
                            name, {x: prm.get(x) for x in ("typ", "default")}, got, want))
                out.append(msgs[0] if msgs else None)
            else:
                name, prm = parse_out_param(build_call(c["k"]), emit_default_doc=False)
                got_t = typ_nesting(prm["typ"])
                got_d = kind_of_default(prm["default"]) if "default" in prm else "absent"
                if c["k"]["helpdef"] and c["k"]["default"] == "none" and got_d == "int_pos" and prm.get("default") != 7:
                    got_d = "int_pos(wrong value {!r})".format(prm.get("default"))
                want_t, want_d = c["parsed"]["typ"], c["parsed"]["def"]
                ok = got_t == want_t and got_d == want_d
                out.append(None if ok else "parse_out_param({}) returns typ {} / default {} but ArgSpec!ParseArg says {} / {}".format(
                    ast.unparse(build_call(c["k"])), prm.get("typ"), got_d, want_t, want_d))
        except Exception as e:  # noqa
            out.append("raises {}: {}".format(type(e).__name__, str(e)[:120]))
    return out


def check(run, replay=None):
    run.rule = ("case = a parameter [typ, def] of the shared domain handed to the real param2argparse_param (its add_argument keywords must be "
                "ArgSpec!EmitArg's), or one of the 896 keyword records built as a real add_argument call and handed to the real "
                "parse_out_param (type nesting and default kind must be ArgSpec!ParseArg's)")
    run.assumptions += ["X07 is specification coverage, not one of the listed properties"]
    run.tlc("ArgSpec", "MC_ArgSpec_asbuilt.cfg", workers=4, timeout=900)
    run.tlc("ArgSpec", "MC_ArgSpec_designed.cfg", workers=4, timeout=900)
    r = run.tlc("ArgSpec", "MC_ArgSpec_asbuilt_usable.cfg", expect_ok=False, workers=1, timeout=900)
    if r.violated != "DefaultUsable":
        raise MachineryError("ArgSpec.tla as built does not exhibit the recorded departure (DefaultUsable)")
    r = run.tlc("ArgSpec", "MC_ArgSpec_designed_derived.cfg", expect_ok=False, workers=1, timeout=900)
    if r.violated != "Derived":
        raise MachineryError("ArgSpec!Derived holds for the designed `required` too: the derivation is vacuous")
    r = run.tlc("ArgSpec", "MC_ArgSpec_dump.cfg", shards=4, timeout=1800)
    cases = r.printed
    n_emit = sum(1 for c in cases if c["mode"] == "emit")
    n_parse = sum(1 for c in cases if c["mode"] == "parse")
    if n_parse != 896 or n_emit < 50:
        raise MachineryError("ArgSpec dump produced {} emit / {} parse cases".format(n_emit, n_parse))
    k = 0
    for rb in pmap(run_batch, [cases[i:i + 64] for i in range(0, len(cases), 64)], chunksize=1):
        for res in rb:
            c = cases[k]
            k += 1
            run.replayed += 1
            key = json.dumps([c["mode"], c["p"] if c["mode"] == "emit" else c["k"]], sort_keys=True)
            if res is None:
                run.held(key)
            else:
                run.violation("{}: {}".format(c["mode"], res[:400]), {"case": c}, key=key)
            if len(run.samples) < 2 and c["mode"] == "emit" and c["k"]["required"] and c["k"]["default"] != "none":
                run.sample({"parameter": c["p"], "keywords": c["k"], "parsed_back": c["parsed"]})
    run.exhaustive = True
