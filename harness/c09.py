"""C09 -- the concrete syntax tree is lossless for every string.

TLC: Cst.tla (character-level transcription of cst_scanner/cst_scan/cst_parser) -- Conservation in every
     state, Lossless, NodesLossless, Tiling -- exhaustively over all sources of <= MaxTok lexical tokens.
R:   every enumerated source is concretised and run through the real cst_scanner / cst_parse; the verdict
     is Lossless + Tiling evaluated on the REAL output; chunk boundaries / line numbers vs the model are
     diagnostic (MODEL-DRIFT).
V:   repository files and seeded mutations of them through the real scanner with cst_scan wrapped; the
     recorded per-call length events are validated by TLC against AbsCst (TraceCst.tla), and the
     verdict predicates are evaluated on the outputs.
"""

import glob
import json
import os
import random
import shutil
import tempfile

from harness.common import NCPU, REPO, MachineryError, pmap

GAMMA = {"NL": "\n", "SP": " ", "SQ": "'", "DQ": '"', "TSQ": "'''", "TDQ": '"""', "HASH": "#", "BS": "\\",
         "DEF": "def ", "CLASS": "class "}


def concretise(toks):
    return "".join(GAMMA.get(t, t) for t in toks)


def judge(src, chunks, nodes):
    """The property's own predicates on what the real code returned -> list of failures (empty = held)"""
    bad = []
    if chunks is not None:
        if not all(isinstance(c, str) for c in chunks) or "".join(chunks) != src:
            bad.append("scanner chunks do not concatenate to the input")
    if nodes is not None:
        vals = [n.value for n in nodes]
        if "".join(vals) != src:
            bad.append("node texts do not concatenate to the input")
        if nodes and nodes[0].line_no_start != 1:
            bad.append("first node starts at line {}".format(nodes[0].line_no_start))
        for i, n in enumerate(nodes):
            if n.line_no_end - n.line_no_start != n.value.count("\n"):
                bad.append("node {} spans {}..{} but its text has {} line breaks".format(
                    i, n.line_no_start, n.line_no_end, n.value.count("\n")))
                break
        for i in range(len(nodes) - 1):
            if nodes[i + 1].line_no_start != nodes[i].line_no_end:
                bad.append("node {} starts at line {} but node {} ended at line {}".format(
                    i + 1, nodes[i + 1].line_no_start, i, nodes[i].line_no_end))
                break
    return bad


def _real(src):
    from cdd.shared.cst import cst_parse
    from cdd.shared.cst_utils import cst_scanner

    try:
        chunks = cst_scanner(src)
        nodes = cst_parse(src)
    except Exception as e:  # the statement says: for every string whatsoever
        return None, None, "raises {}: {}".format(type(e).__name__, e)
    return chunks, nodes, None


def _replay_batch(cases):
    out = []
    for c in cases:
        src = concretise(c["toks"])
        chunks, nodes, err = _real(src)
        if err:
            out.append((c, [err], False))
            continue
        bad = judge(src, chunks, nodes)
        drift = ([len(x) for x in chunks] != c["chunks"]
                 or [[n.line_no_start, n.line_no_end] for n in nodes] != c["lines"])
        out.append((c, bad, drift))
    return out


# ------------------------------------------------------------------------------------------------
# V: recorded executions
# ------------------------------------------------------------------------------------------------

ALPHA = ["\n", " ", "    ", "'", '"', "'''", '"""', "#", "\\", "(", ")", "[", "]", "{", "}", ":", "=", "@", ";",
         "def ", "class ", "x", "\t"]


def mutate(src, rnd):
    kind = rnd.choice(("delete", "dup", "insert", "swap", "unquote", "truncate"))
    if not src:
        return rnd.choice(ALPHA)
    i = rnd.randrange(len(src))
    if kind == "delete":
        j = min(len(src), i + rnd.choice((1, 1, 3)))
        return src[:i] + src[j:]
    if kind == "dup":
        j = min(len(src), i + rnd.choice((1, 3, 20)))
        return src[:j] + src[i:j] + src[j:]
    if kind == "insert":
        return src[:i] + rnd.choice(ALPHA) + src[i:]
    if kind == "swap":
        j = rnd.randrange(len(src))
        a, b = min(i, j), max(i, j)
        return src[:a] + src[b:b + 1] + src[a + 1:b] + src[a:a + 1] + src[b + 1:] if a != b else src
    if kind == "unquote":
        qs = [k for k, ch in enumerate(src) if ch in "'\""]
        if qs:
            k = rnd.choice(qs)
            return src[:k] + src[k + 1:]
        return src
    return src[:i]


def record(src):
    """run the real cst_scanner with cst_scan wrapped -> (chunks, nodes, events, err)"""
    import cdd.shared.cst_utils as cu

    events = []
    orig = cu.cst_scan
    pushed = [0]

    def wrapped(scanned, stack):
        before, nsc = len(stack), len(scanned)
        # characters pushed so far = emitted + held back (the wrapper cannot see `idx`; it reads the
        # lengths it is given -- the position is reconstructed from the source by the caller below)
        r = orig(scanned, stack)
        events.append({"before": before, "app": [len(x) for x in scanned[nsc:]], "after": len(stack)})
        return r

    cu.cst_scan = wrapped
    try:
        chunks = cu.cst_scanner(src)
        err = None
    except Exception as e:
        chunks, err = None, "raises {}: {}".format(type(e).__name__, e)
    finally:
        cu.cst_scan = orig
    nodes = None
    if err is None:
        try:
            nodes = cu.cst_parser(chunks)
        except Exception as e:
            err = "raises {}: {}".format(type(e).__name__, e)
    # positions: the k-th scan happens at the k-th newline (0-based index == characters pushed before it),
    # the last scan after the whole source has been pushed
    nl = [i for i, ch in enumerate(src) if ch == "\n"]
    if len(events) == len(nl) + 1:
        for e, p in zip(events, nl + [len(src)]):
            e["pos"] = p
        # the trailing `if stack: scanned.append(...)` is folded into the last event
        last = events[-1]
        if last["after"] > 0 and chunks is not None:
            last["app"] = last["app"] + [last["after"]]
            last["after"] = 0
    else:
        for e in events:
            e["pos"] = -1  # unexplainable call pattern; the trace spec rejects it (diagnostic)
    return chunks, nodes, events, err


def _record_batch(items):
    out = []
    for tid, src in items:
        chunks, nodes, events, err = record(src)
        bad = [err] if err else judge(src, chunks, nodes)
        out.append((tid, src, bad, events))
    return out


def check(run, replay=None):
    work = tempfile.mkdtemp(prefix="verif-c09-")
    try:
        _check(run, replay, work)
    finally:
        shutil.rmtree(work, ignore_errors=True)


def _check(run, replay, work):
    run.rule = ("sources = all sequences of <= MaxTok tokens over the 19-token lexical alphabet (TLC-enumerated, each "
                "replayed through the real scanner/parser) + repository files and seeded mutations (recorded, validated "
                "against AbsCst); distinct = distinct source texts; non-trivial = non-empty")
    run.assumptions += ["x stands for every identifier character; tab and form feed appear only in the file/mutation part"]
    try:
        import cdd.shared.cst  # noqa: F401
        import cdd.shared.cst_utils  # noqa: F401
    except Exception as e:
        run.violation("cdd.shared.cst cannot be imported: {!r}".format(e), {"kind": "import"})
        return

    if replay:
        with open(replay) as f:
            case = json.load(f)["case"]
        src = case["src"]
        chunks, nodes, err = _real(src)
        bad = [err] if err else judge(src, chunks, nodes)
        if bad:
            run.violation("{!r}: {}".format(src[:80], "; ".join(bad)), case)
        else:
            run.held(src)
        run.replayed += 1
        return

    quick = run.tier == "quick"
    # ---------------- TLC: property check (16 workers) + dump (16 shards) ----------------
    n_check = 3 if quick else 4
    run.tlc("Cst", "MC_Cst.cfg", constants={"MaxTok": n_check}, coverage=True, timeout=3000)
    n_dump = 3 if quick else 4
    r = run.tlc("Cst", "MC_Cst_dump.cfg", shards=NCPU, constants={"MaxTok": n_dump}, timeout=3000)
    cases = r.printed
    expected = sum(19 ** k for k in range(n_dump + 1))
    if len(cases) != expected:
        raise MachineryError("Cst dump produced {} cases, expected {}".format(len(cases), expected))
    run.exhaustive = True
    run.extra["max_tokens"] = n_dump
    if not quick:
        # depth beyond the exhaustive bound: random behaviours of up to 8 tokens (property check only)
        run.tlc("Cst", "MC_Cst_sim.cfg", constants={"MaxTok": 8}, simulate="num=20000", depth=60, seed=run.seed + 1,
                workers=NCPU, timeout=3000)

    # ---------------- R: replay every enumerated source through the real code ----------------
    batches = [cases[i:i + 500] for i in range(0, len(cases), 500)]
    n_drift = 0
    for res in pmap(_replay_batch, batches):
        for c, bad, drift in res:
            src = concretise(c["toks"])
            run.replayed += 1
            if bad:
                run.violation("source {!r}: {}".format(src, "; ".join(bad)), {"src": src, "toks": c["toks"]}, key=src)
            else:
                run.held(src if src else None)
                if drift:
                    n_drift += 1
                    if n_drift <= 5:
                        run.model_drift("Cst.tla chunk boundaries / line numbers differ from the real scanner on {!r}".format(src))
    if n_drift > 5:
        run.model_drift("... {} sources with boundary drift in total".format(n_drift))
    run.sample({"toks": cases[len(cases) // 2]["toks"], "src": concretise(cases[len(cases) // 2]["toks"]),
                "model_chunks": cases[len(cases) // 2]["chunks"], "model_lines": cases[len(cases) // 2]["lines"]})

    # ---------------- V: repository files + mutations, recorded and validated ----------------
    rnd = random.Random(run.seed)
    files = sorted(glob.glob(os.path.join(REPO, "cdd", "**", "*.py"), recursive=True))
    texts = []
    for p in files:
        with open(p, encoding="utf-8") as f:
            s = f.read()
        if s.count("\n") <= (250 if quick else 700):
            texts.append((os.path.relpath(p, REPO), s))
    if quick:
        texts = rnd.sample(texts, min(24, len(texts)))
    items = []
    for name, s in texts:
        items.append((name, s))
        for k in range(2 if quick else 8):
            m = s
            for _ in range(rnd.choice((1, 1, 2, 4))):
                m = mutate(m, rnd)
            items.append(("{}#mut{}".format(name, k), m))
    # hostile hand-written shapes
    for k, s in enumerate(["", "\n", "\\", "\\\n", "'''", '"""\n', "@\n", "#", "x = (\n", "def f(:\n  '''\n", "class A:\r\n  x\r\n",
                           "\tdef f():\n\t\treturn 1\n", "x\\\n\\\n", "'\\''\n(\n", "a;b;c\n", "@d\ndef f(): pass", "\n\n\n"]):
        items.append(("hand{}".format(k), s))
    batches = [items[i:i + 4] for i in range(0, len(items), 4)]
    traces = []
    for res in pmap(_record_batch, batches):
        for tid, src, bad, events in res:
            run.replayed += 1
            if bad:
                run.violation("{}: {}".format(tid, "; ".join(bad)), {"src": src, "tid": tid}, key=src)
            else:
                run.held(src if src else None)
            traces.append({"tid": tid, "n": len(src), "events": [
                {"pos": e["pos"], "before": e["before"], "app": e["app"], "after": e["after"]} for e in events]})
    # binding demonstration: two corrupted copies of a real trace must be rejected
    donor = next(t for t in traces if len(t["events"]) > 3 and any(e["app"] for e in t["events"]))
    c1 = json.loads(json.dumps(donor))
    c1["tid"] = "CORRUPT-lost-char"
    k = next(i for i, e in enumerate(c1["events"]) if e["app"])
    c1["events"][k]["app"][0] += 1
    c2 = json.loads(json.dumps(donor))
    c2["tid"] = "CORRUPT-dropped-event"
    k = next(i for i, e in enumerate(c2["events"]) if e["app"])
    del c2["events"][k]
    traces += [c1, c2]
    tf = os.path.join(work, "traces.json")
    with open(tf, "w") as f:
        json.dump(traces, f)
    r = run.tlc("TraceCst", "MC_TraceCst.cfg", workers=1, env={"TRACE_FILE": tf}, timeout=3000)
    rejected = {d["reject"]: d["at"] for d in r.printed if isinstance(d, dict) and "reject" in d}
    for c in ("CORRUPT-lost-char", "CORRUPT-dropped-event"):
        if c not in rejected:
            raise MachineryError("binding demonstration failed: corrupted trace {} was accepted by TraceCst".format(c))
        del rejected[c]
    for tid, at in sorted(rejected.items()):
        run.model_drift("TraceCst rejects the recorded scan of {} at event {} (lengths not conserved by that call)".format(tid, at))
    run.extra["traces_recorded"] = len(traces) - 2
    run.extra["traces_rejected"] = len(rejected)
    run.extra["binding_demo"] = "2 corrupted traces rejected"
    run.sample({"trace": donor["tid"], "first_events": donor["events"][:4]})
