"""X02 -- infer (which parser reads a given input) conforms to Infer.tla.   (Specification coverage, not a listed property.)

TLC: Infer.tla -- Total and EmitInverse on the decision AS DESIGNED; as built both must be FOUND violated by TLC
     (MC_Infer_asbuilt_total.cfg, MC_Infer_asbuilt_inverse.cfg).
R:   every shape of the as-built model is concretised into several real inputs (hand-written ones AND, for the nine shapes an emitter
     of the tool produces, the REAL emitter's output for gamma-interfaces) and handed to the real infer; the answer -- a parser name,
     None, or the exception class -- must equal the model's.
"""

import ast
import contextlib
import copy
import io
import json

from harness import gamma as G
from harness.common import MachineryError

HAND = {
    "fn_argparse": ["def set_cli_args(argument_parser):\n    return argument_parser\n", "def g(argument_parser, x=1):\n    pass\n"],
    "fn_plain": ["def f(a, b=1):\n    return a\n", "def f():\n    pass\n", "def f(self, parser):\n    pass\n"],
    "fn_async": ["async def f(a):\n    return a\n"],
    "cls_Base": ["class X(Base):\n    __tablename__ = 'x'\n    id = Column(Integer, primary_key=True)\n", "class X(Mixin, Base):\n    pass\n"],
    "cls_attr_Base": ["class X(db.Base):\n    __tablename__ = 'x'\n    id = Column(Integer, primary_key=True)\n"],
    "cls_BaseModel": ["class X(BaseModel):\n    a: int = 5\n"],
    "cls_plain": ["class X(object):\n    a: int = 5\n", "class X:\n    pass\n", "class X(Foo.Bar):\n    pass\n"],
    "cls_hybrid": ["class X(Base):\n    __tablename__ = 'x'\n    __table__ = Table('x', metadata, Column('id', Integer, primary_key=True))\n"],
    "assign_table": ["x = Table('x', metadata, Column('id', Integer, primary_key=True))\n",
                     "x = Table('x', metadata, Column('id', Integer), Column('b', String), comment='c')\n"],
    "annassign_table": ["x: Table = Table('x', metadata, Column('id', Integer, primary_key=True))\n"],
    "assign_table2": ["x = Table('x', metadata)\n"],
    "assign_table_attr": ["x = Table('x', db.metadata, Column('id', Integer, primary_key=True))\n"],
    "assign_other": ["x = f(1)\n", "x = Table('x')\n"],
    "module": ["import os\n\nclass X(object):\n    pass\n"],
}
TEXT_DOC = ["Do the thing\n\n:param a: the a\n:type a: ```int```\n", "", "just prose", "Args:\n  a (int): the a\n"]
TEXT_DEF = ["def f(a):\n    return a\n", "class X(object):\n    pass\n"]
EMIT_SHAPE = {"argparse": "fn_argparse", "function": "fn_plain", "class": "cls_plain", "pydantic": "cls_BaseModel", "sqlalchemy": "cls_Base",
              "sqlalchemy_hybrid": "cls_hybrid", "sqlalchemy_table": "assign_table", "json_schema": "dict_schema", "docstring": "text_doc"}
IFACE = {"doc": "one", "params": [{"typ": "int", "def": "int_pos", "doc": "plain"}, {"typ": "Opt_str", "def": "None", "doc": "plain"}],
         "ret": {"typ": "none", "def": "absent", "doc": "absent"}}


def _py_function(a, b=1):
    """a live function object"""
    return a


class _PyClass(object):
    """a live class object"""

    a = 5


def inputs_of(shape):
    """-> list of (label, input object)"""
    out = []
    for k, src in enumerate(HAND.get(shape, [])):
        tree = ast.parse(src)
        out.append(("hand-written #{}".format(k), tree if shape == "module" else tree.body[0]))
    if shape == "call_table":
        out.append(("hand-written", ast.parse(HAND["assign_table"][0]).body[0].value))
    if shape == "text_doc":
        out += [("text #{}".format(k), t) for k, t in enumerate(TEXT_DOC)]
    if shape == "const_doc":
        out += [("constant #{}".format(k), ast.Constant(value=t)) for k, t in enumerate(TEXT_DOC[:2])]
    if shape == "text_def":
        out += [("source text #{}".format(k), t) for k, t in enumerate(TEXT_DEF)]
    if shape == "dict_schema":
        out.append(("hand-written", {"$id": "x", "type": "object", "properties": {"a": {"type": "integer"}}}))
    if shape == "py_function":
        out.append(("live object", _py_function))
    if shape == "py_class":
        out.append(("live object", _PyClass))
    # what the tool's own emitters write
    for kind, shp in EMIT_SHAPE.items():
        if shp != shape:
            continue
        try:
            out.append(("emitted by the real {} emitter".format(kind), emitted(kind)))
        except Exception as e:  # noqa -- an emitter that cannot emit this interface contributes no input
            out.append(("emitter {} raised {}".format(kind, type(e).__name__), None))
    return out


def emitted(kind):
    import cdd.argparse_function.emit
    import cdd.class_.emit
    import cdd.docstring.emit
    import cdd.function.emit
    import cdd.json_schema.emit
    import cdd.pydantic.emit
    import cdd.sqlalchemy.emit
    from harness import real

    ir = G.Gamma(0).iface(IFACE, 0)
    with contextlib.redirect_stdout(io.StringIO()), contextlib.redirect_stderr(io.StringIO()):
        if kind == "docstring":
            return cdd.docstring.emit.docstring(copy.deepcopy(ir))
        if kind == "json_schema":
            return cdd.json_schema.emit.json_schema(copy.deepcopy(ir))
        node = {"argparse": lambda: cdd.argparse_function.emit.argparse_function(copy.deepcopy(ir)),
                "function": lambda: cdd.function.emit.function(copy.deepcopy(ir), function_name="f", function_type="static"),
                "class": lambda: cdd.class_.emit.class_(copy.deepcopy(ir), class_name="C"),
                "pydantic": lambda: cdd.pydantic.emit.pydantic(copy.deepcopy(ir), class_name="C"),
                "sqlalchemy": lambda: cdd.sqlalchemy.emit.sqlalchemy(copy.deepcopy(ir), class_name="C", table_name="c"),
                "sqlalchemy_hybrid": lambda: cdd.sqlalchemy.emit.sqlalchemy_hybrid(copy.deepcopy(ir), class_name="C", table_name="c"),
                "sqlalchemy_table": lambda: cdd.sqlalchemy.emit.sqlalchemy_table(copy.deepcopy(ir), name="c")}[kind]()
    # what a reader of the written file sees: render and re-read
    src, mod = real.render(node)
    return next(n for n in mod.body if isinstance(n, (ast.ClassDef, ast.FunctionDef, ast.Assign, ast.AnnAssign)))


def ask(obj):
    import cdd.shared.parse.utils.parser_utils as pu

    try:
        with contextlib.redirect_stdout(io.StringIO()), contextlib.redirect_stderr(io.StringIO()):
            r = pu.infer(copy.deepcopy(obj) if isinstance(obj, ast.AST) else obj)
        return "None" if r is None else r
    except Exception as e:  # noqa
        return type(e).__name__


def check(run, replay=None):
    run.rule = ("case = (input shape of Infer.tla, concrete input): hand-written inputs of every shape plus the real emitters' own output; "
                "the real infer's answer (parser name / None / exception class) must be the as-built model's")
    run.assumptions += ["X02 is specification coverage, not one of the listed properties: a mismatch means Infer.tla no longer describes the code"]
    run.tlc("Infer", "MC_Infer_designed.cfg", workers=1, timeout=300)
    for cfg, inv in (("MC_Infer_asbuilt_total.cfg", "Total"), ("MC_Infer_asbuilt_inverse.cfg", "EmitInverse")):
        r = run.tlc("Infer", cfg, expect_ok=False, workers=1, timeout=300)
        if r.violated != inv:
            raise MachineryError("Infer.tla as built does not exhibit the recorded departure {} ({})".format(inv, cfg))
    r = run.tlc("Infer", "MC_Infer_dump.cfg", workers=1, timeout=300)
    model = {d["shape"]: d["answer"] for d in r.printed}
    if len(model) < 20:
        raise MachineryError("Infer dump produced {} shapes".format(len(model)))
    for shape, want in sorted(model.items()):
        cases = inputs_of(shape)
        if not any(obj is not None for _, obj in cases):
            raise MachineryError("no concrete input for shape " + shape)
        for label, obj in cases:
            if obj is None:
                continue
            run.replayed += 1
            got = ask(obj)
            key = json.dumps([shape, label])
            if got == want:
                run.held(key)
            else:
                run.violation("infer({} / {}) answers {} but Infer.tla says {}".format(shape, label, got, want),
                              {"shape": shape, "label": label, "observed": got, "model": want}, key=key)
            if len(run.samples) < 3 and label.startswith("emitted"):
                run.sample({"shape": shape, "input": label, "answer": got})
    run.exhaustive = True
