"""C19 -- gen writes a valid module that exports exactly what it generated.

TLC: Gen.tla -- NoClobber and Exports over the full option matrix (9 parse kinds x 8 emit kinds x name template x
     import inference x prepend x imports-from-file x output absent/present x 1..3 entries = 6912 records), ideal and
     as built (each non-working matrix cell is a named deviation with its exact outcome).
R:   every option record (seeded sample in quick, all in thorough) is concretised -- the input module / JSON-schema file is
     produced with the real emitters from gamma-interfaces -- and the real `gen` command runs in-process under the
     audit-hook recorder.  Verdicts: refusal leaves the existing file byte-identical and opens nothing for writing;
     otherwise the output compiles, defines exactly the templated symbols, __all__ lists exactly those names, every
     symbol parses back to its entry's interface, and with inference on every typing/SQLAlchemy name used is imported.
"""

import ast
import contextlib
import copy
import io
import json
import os
import random
import shutil
import tempfile
import typing

from harness import gamma as G
from harness.common import NCPU, MachineryError, pmap

ENTRY_NAMES = {"E1": "Alpha", "E2": "Beta", "E3": "Gamma"}
# interfaces on which the single-hop round trip of every working emit kind is exact (C02): typed, defaulted, no None
IFACES = {
    "E1": {"doc": "one", "params": [{"typ": "int", "def": "int_pos", "doc": "plain"}, {"typ": "str", "def": "str", "doc": "plain"}],
           "ret": {"typ": "none", "def": "absent", "doc": "absent"}},
    "E2": {"doc": "one", "params": [{"typ": "Lit", "def": "str", "doc": "plain"}, {"typ": "float", "def": "float_pos", "doc": "plain"}],
           "ret": {"typ": "none", "def": "absent", "doc": "absent"}},
    "E3": {"doc": "one", "params": [{"typ": "Opt_int", "def": "int_pos", "doc": "plain"}, {"typ": "bool", "def": "bool_T", "doc": "plain"}],
           "ret": {"typ": "none", "def": "absent", "doc": "absent"}},
}
TPL = {"suffix": "{name}Cfg", "prefix": "Gen{name}"}
SQL_NAMES = {"Column", "Integer", "String", "Float", "Boolean", "Enum", "JSON", "Table", "Identity", "BigInteger", "Text",
             "LargeBinary", "ARRAY", "ForeignKey", "MetaData"}


def make_input(kind, entries, d, g, salt, mixed=False):
    import cdd.argparse_function.emit
    import cdd.class_.emit
    import cdd.function.emit
    import cdd.json_schema.emit
    import cdd.pydantic.emit
    import cdd.sqlalchemy.emit
    from cdd.shared.source_transformer import to_code

    srcs = []
    for e in entries:
        nm = ENTRY_NAMES[e]
        ir = g.iface(IFACES[e], salt, name=nm)
        if mixed and e == "E2":
            n = cdd.sqlalchemy.emit.sqlalchemy(copy.deepcopy(ir), class_name=nm, table_name=nm.lower())
        elif kind in ("class", "infer"):
            n = cdd.class_.emit.class_(copy.deepcopy(ir), class_name=nm)
        elif kind == "pydantic":
            n = cdd.pydantic.emit.pydantic(copy.deepcopy(ir), class_name=nm)
        elif kind == "function":
            n = cdd.function.emit.function(copy.deepcopy(ir), function_name=nm, function_type="static")
        elif kind == "argparse":
            n = cdd.argparse_function.emit.argparse_function(copy.deepcopy(ir), function_name=nm)
        elif kind == "sqlalchemy":
            n = cdd.sqlalchemy.emit.sqlalchemy(copy.deepcopy(ir), class_name=nm, table_name=nm.lower())
        elif kind == "sqlalchemy_table":
            n = cdd.sqlalchemy.emit.sqlalchemy_table(copy.deepcopy(ir), name=nm)
        elif kind == "sqlalchemy_hybrid":
            n = cdd.sqlalchemy.emit.sqlalchemy_hybrid(copy.deepcopy(ir), class_name=nm, table_name=nm.lower())
        elif kind == "json_schema":
            p = os.path.join(d, nm + ".json")
            with open(p, "w") as f:
                json.dump(cdd.json_schema.emit.json_schema(copy.deepcopy(ir)), f)
            return p          # a JSON-schema file holds one entry
        srcs.append(to_code(n))
    p = os.path.join(d, "input_mod.py")
    with open(p, "w") as f:
        f.write("from typing import Literal, Optional\n\n\n" + "\n\n\n".join(srcs) + "\n")
    return p


def run_case(args):
    case, seed, workroot = args
    from harness import conv, effects, real
    import cdd.__main__ as cli

    o = case["o"]
    G.NAME_COLS[0] = [0, 2, 3]      # identifiers that are not primary-key candidates by name (SQL kinds infer keys from names)
    g = G.Gamma(seed)
    salt = conv.salt_of({"cfg": {}, "i": o}, seed)
    d = tempfile.mkdtemp(prefix="c19-", dir=workroot)
    res = {"case": case, "fails": [], "outcome": None, "text": None}
    entries = ["E1", "E2", "E3"][: o["entries"]]
    try:
        try:
            with contextlib.redirect_stdout(io.StringIO()), contextlib.redirect_stderr(io.StringIO()):
                inp = make_input(o["parse"], entries, d, g, salt, mixed=o.get("mixed", False))
        except Exception as e:  # noqa
            res["skip"] = "input of kind {} cannot be produced: {}".format(o["parse"], type(e).__name__)
            return res
        if o["parse"] == "json_schema":
            entries = entries[:1]
        out = os.path.join(d, "out.py")
        old = "# precious content\nX = 1\n"
        if o["out_present"]:
            with open(out, "w") as f:
                f.write(old)
        argv = ["gen", "--name-tpl", TPL[o["tpl"]], "--input-mapping", inp, "--parse", o["parse"], "--emit", o["emit"],
                "--output-filename", out]
        if o["infer_imports"]:
            argv.append("--emit-and-infer-imports")
        if o["prepend"]:
            argv += ["--prepend", "PREPENDED = 1\n"]
        if o["imports_from_file"]:
            impf = os.path.join(d, "imports_here.py")
            with open(impf, "w") as f:
                f.write("from typing import Literal, Optional\n\nIGNORED = 2\n")
            argv += ["--imports-from-file", impf]
        rec = effects.Recorder(outputs=[out], inputs=[inp])
        raised = None
        with effects.recording(rec):
            try:
                with contextlib.redirect_stdout(io.StringIO()), contextlib.redirect_stderr(io.StringIO()):
                    cli.main(argv)
            except SystemExit:
                raised = "SystemExit"
            except Exception as e:  # noqa
                raised = type(e).__name__
        res["argv"] = argv[1:]
        writes = [dd for e, dd in zip(rec.events, rec.detail) if e["k"] in ("openw", "remove", "rename", "mkdir")]
        elsewhere = [dd for e, dd in zip(rec.events, rec.detail) if e["k"] in ("openw", "remove", "rename", "mkdir") and e["a"] == "elsewhere"]
        if elsewhere:
            res["fails"].append(("effects", "gen wrote outside the named output: {}".format(elsewhere[:3])))
        if o["out_present"]:
            with open(out) as f:
                now = f.read()
            res["outcome"] = "refused" if raised else "not_refused"
            if raised is None:
                res["fails"].append(("NoClobber", "gen did not refuse an existing output file"))
            if now != old:
                res["fails"].append(("NoClobber", "the existing output file was modified"))
            if writes:
                res["fails"].append(("NoClobber", "the refusing path opened {} for writing".format(writes[:2])))
            return res
        if raised:
            res["outcome"] = "raises:" + raised
            res["fails"].append(("Exports", "gen raises " + raised))
            return res
        if not os.path.exists(out):
            res["outcome"] = "no_output"
            res["fails"].append(("Exports", "gen returned without writing the output file"))
            return res
        with open(out) as f:
            text = f.read()
        res["text"] = text
        try:
            tree = ast.parse(text)
            compile(text, out, "exec")
        except SyntaxError as e:
            res["outcome"] = "syntax_error"
            res["fails"].append(("Exports", "the written module does not compile: {}".format(e)))
            return res
        want = sorted(TPL[o["tpl"]].format(name=ENTRY_NAMES[e]) for e in entries)
        defs = [n.name for n in tree.body if isinstance(n, (ast.ClassDef, ast.FunctionDef))]
        defs += [t.id for n in tree.body if isinstance(n, ast.Assign) for t in n.targets
                 if isinstance(t, ast.Name) and t.id not in ("__all__", "PREPENDED")
                 and isinstance(n.value, ast.Call) and getattr(n.value.func, "id", "") == "Table"]
        alls = None
        for n in tree.body:
            tg = n.targets if isinstance(n, ast.Assign) else [n.target] if isinstance(n, ast.AnnAssign) else []
            if any(isinstance(t, ast.Name) and t.id == "__all__" for t in tg) and n.value is not None:
                try:
                    alls = list(ast.literal_eval(n.value))
                except Exception:
                    alls = ["<unevaluable>"]
        ok_syms = sorted(defs) == want
        ok_all = alls is not None and sorted(alls) == want and len(set(alls)) == len(alls)
        names_ok = ok_syms and ok_all
        if not names_ok:
            res["outcome"] = "all_ne_symbols"
            res["fails"].append(("Exports", "symbols {} / __all__ {} != templated names {}".format(sorted(defs), alls, want)))
            # (the clauses that do not depend on the symbols' names -- import coverage -- are still judged below)
        # __future__ first
        fut = [k for k, n in enumerate(tree.body) if isinstance(n, ast.ImportFrom) and n.module == "__future__"]
        if fut and fut[0] > (1 if ast.get_docstring(tree) else 0):
            res["fails"].append(("Exports", "a __future__ import is not first"))
        # each symbol parses back to its entry's interface
        from harness.conv import run_format  # noqa: F401
        import cdd.argparse_function.parse
        import cdd.class_.parse
        parser = {"class": cdd.class_.parse.class_, "argparse": cdd.argparse_function.parse.argparse_ast}.get(o["emit"])
        if parser is not None and names_ok:
            for e in entries:
                name = TPL[o["tpl"]].format(name=ENTRY_NAMES[e])
                node = next(n for n in tree.body if getattr(n, "name", None) == name)
                try:
                    with contextlib.redirect_stdout(io.StringIO()), contextlib.redirect_stderr(io.StringIO()):
                        back = real.plain(parser(copy.deepcopy(node)))
                except Exception as ex:  # noqa
                    res["fails"].append(("Exports", "symbol {} cannot be parsed back: {}".format(name, type(ex).__name__)))
                    continue
                i = IFACES[e]
                ps = [{"present": True, "wild": False, "typs": [p["typ"]], "def": p["def"], "doc": p["doc"]} for p in i["params"]]
                if o["parse"] == "sqlalchemy" or (o.get("mixed") and e == "E2"):
                    # the source entry itself (a SQLAlchemy class) carries the synthetic primary key; the fidelity of the
                    # SQL parser is C05's subject, here names and order are compared
                    ps.append({"present": True, "wild": False, "name": "id", "typs": ["int"], "def": "absent", "doc": "pkonly"})
                    for p_ in ps:
                        p_["wild"] = True
                exp = {"raises": "no", "wild": False, "doc": "any",
                       "params": ps,
                       "ret": {"present": False, "wild": False, "typs": [], "def": "absent", "doc": "absent"}}
                diffs = G.compare(back, g.expected(exp, i, salt), strip_defaults=True)
                diffs = [x for x in diffs if x[0] != "ret"]
                if diffs:
                    res["fails"].append(("Exports", "symbol {} does not have its entry's interface: {}".format(name, diffs[0][1])))
        if o["infer_imports"]:
            imported = set()
            for n in ast.walk(tree):
                if isinstance(n, (ast.Import, ast.ImportFrom)):
                    for a in n.names:
                        imported.add((a.asname or a.name).split(".")[0])
            used = {n.id for n in ast.walk(tree) if isinstance(n, ast.Name)}
            need = {u for u in used if u in set(typing.__all__) | SQL_NAMES}
            missing = sorted(need - imported - set(defs))
            if missing:
                res["fails"].append(("ImportsCover", "import inference is on but {} are used without being imported".format(missing)))
        if "outcome" not in res or res["outcome"] is None:
            res["outcome"] = "ok" if not res["fails"] else "other"
        return res
    finally:
        shutil.rmtree(d, ignore_errors=True)


def _batch(items):
    return [run_case(a) for a in items]


def check(run, replay=None):
    work = tempfile.mkdtemp(prefix="verif-c19-")
    try:
        _check(run, replay, work)
    finally:
        shutil.rmtree(work, ignore_errors=True)


def _check(run, replay, work):
    from harness import conv

    run.rule = ("case = option record of the gen matrix (parse kind incl. infer, emit kind, name template, import inference, "
                "--prepend, --imports-from-file, output absent/present, 1..3 entries); the input module / schema file is produced "
                "by the real emitters; distinct = distinct option records")
    run.assumptions += ["entries are interfaces on which the single-hop round trip of the emit kind is exact (typed, defaulted, no None)",
                        "a JSON-schema input file holds one entry"]
    run.tlc("Gen", "MC_Gen_ideal.cfg", workers=4, timeout=600)
    r = run.tlc("Gen", "MC_Gen_dump.cfg", shards=6, constants={"Enabled": conv.enabled_constant(run)}, timeout=900)
    cases = r.printed
    seen = {d for c in cases for d in c["devs"]}
    missing = sorted(set(run.known) - seen)
    if missing:
        raise MachineryError("listed C19 findings {} are unreachable in Gen.tla".format(missing))
    if replay:
        with open(replay) as f:
            want = json.load(f)["case"]["case"]["o"]
        cases = [c for c in cases if c["o"] == want]
    elif run.tier == "quick":
        rnd = random.Random(run.seed)
        # every (parse, emit, out_present) cell at least once, the rest sampled
        cells = {}
        for c in cases:
            cells.setdefault((c["o"]["parse"], c["o"]["emit"], c["o"]["out_present"], c["o"]["infer_imports"], c["o"]["mixed"]), []).append(c)
        cases = [rnd.choice(v) for k, v in sorted(cells.items())] + rnd.sample(cases, 300)
    else:
        run.exhaustive = True
    items = [(c, run.seed, work) for c in cases]
    results = []
    for rb in pmap(_batch, [items[k:k + 8] for k in range(0, len(items), 8)], chunksize=1):
        results += rb
    tri = {}
    for res in results:
        case = res["case"]
        o = case["o"]
        if "skip" in res:
            continue
        run.replayed += 1
        key = json.dumps(o, sort_keys=True)
        for d in case["devs"]:
            run.trigger(d)
        label = "gen --parse {} --emit {} tpl={} infer_imports={} prepend={} imports_from_file={} entries={}{} out_present={}".format(
            o["parse"], o["emit"], o["tpl"], o["infer_imports"], o["prepend"], o["imports_from_file"], o["entries"],
            " (mixed kinds)" if o.get("mixed") else "", o["out_present"])
        if not res["fails"]:
            run.held(key)
        else:
            model = case["outcome"]
            explained = bool(case["devs"]) and (model == "wild" or model == res["outcome"]) \
                and all(c == "Exports" for c, _ in res["fails"])
            if explained:
                for d in case["devs"]:
                    run.finding(d, "{}: {}".format(label, res["fails"][0][1]), case={"case": case}, key=key)
            else:
                run.violation("{}: {}{}".format(label, "; ".join(m for _, m in res["fails"][:3]),
                                                 "  [model: {}]".format(model) if case["devs"] else ""),
                              {"case": case, "argv": res.get("argv"), "output": res.get("text")}, key=key)
                tri.setdefault((o["parse"], o["emit"], o["infer_imports"], res["outcome"], res["fails"][0][1][:70]), 0)
                tri[(o["parse"], o["emit"], o["infer_imports"], res["outcome"], res["fails"][0][1][:70])] += 1
        if len(run.samples) < 3 and res.get("text") and not res["fails"]:
            run.sample({"argv": res.get("argv"), "output": res["text"][:500]})
    if os.environ.get("VERIF_TRIAGE"):
        for k, v in sorted(tri.items(), key=lambda kv: -kv[1])[:80]:
            print("TRIAGE", v, k)
