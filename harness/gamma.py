"""gamma: concretisation of the abstract interface domain (spec/CddTypes.tla) into real IR dicts, and the
comparison of a real (re-parsed) IR with gamma(expected) on concrete values.

Abstract entries leave TLC as {"typ","def","doc"} (inputs) and {"present","typs","def","doc"} (expectations:
`typs` is the set of acceptable type strings, see the Norm operators).
"""

import ast
import random
import re
from collections import OrderedDict

NoneStr = "```(None)```"

TYP = {
    "int": "int", "float": "float", "str": "str", "bool": "bool",
    "Opt_int": "Optional[int]", "Opt_float": "Optional[float]", "Opt_str": "Optional[str]",
    "Opt_bool": "Optional[bool]", "Opt_dict": "Optional[dict]", "dict": "dict", "list": "list",
    "Lit": "Literal['a', 'b']", "Opt_Lit": "Optional[Literal['a', 'b']]", "List_str": "List[str]",
    "Union_int_str": "Union[int, str]", "Dotted": "np.ndarray", "Any": "Any", "Opt_Any": "Optional[Any]",
    "Lit3u": "Literal['b', 'a', 'c']",
    # type names no built-in table knows (C10: emitters that consult a process-wide table by membership)
    "Named": "Checksum", "Bytes": "bytes", "Union_int_Named": "Union[int, Checksum]", "Union_Named_int": "Union[Checksum, int]",
    "List_Named": "List[Checksum]", "Opt_Named": "Optional[Checksum]", "Union_str_Bytes": "Union[str, bytes]",
    "Lit2": "Literal['utf_8', 'v1']", "Opt_Lit2": "Optional[Literal['utf_8', 'v1']]",
    "LitP": "Literal['channels-first', 'channels last', 'v1.2']", "Opt_LitP": "Optional[Literal['channels-first', 'channels last', 'v1.2']]",
}
LIT_MEMBERS = {"Lit": ["a", "b"], "Opt_Lit": ["a", "b"], "Lit3u": ["b", "a", "c"], "Lit2": ["utf_8", "v1"], "Opt_Lit2": ["utf_8", "v1"],
               "LitP": ["channels-first", "channels last", "v1.2"], "Opt_LitP": ["channels-first", "channels last", "v1.2"]}

NAMES = [["alpha", "dataset_name", "a", "lr", "_alpha"], ["beta", "tfds_dir", "b", "momentum", "_beta"], ["gamma_", "k", "c", "as_numpy", "_c"],
         ["delta", "n_steps", "d", "eps", "_delta"], ["epsilon", "data_loader", "e", "decay", "_e"], ["zeta", "log_dir", "f", "nesterov", "_zeta"],
         ["eta", "batch_size", "g", "clip", "_g"], ["theta", "n_epochs", "h", "amsgrad", "_theta"]]
# (column 4: identifiers with a leading underscore -- used where NAME_COLS asks for it)

CAND_NAMES = ["dataset_name", "user_id"]     # primary-key candidates by name (C05)
INT_POS = [5, 1, 42, 100]
INT_NEG = [-3, -1, -42]
FLOAT_POS = [0.5, 0.001, 2.5, 1.0]      # 1.0 == True == 1: equal values of different types (a cache keyed by equality confuses them)
FLOAT_NEG = [-0.5, -2.25]
STRS = ["mnist", "adam", "x_y", "r"]        # "r": a string of ONE character (the shortest string that still needs its quotes)


LONG_LEN = [120]        # the length a "long" description is cut to (swept by conv.judge_case)
NAME_COLS = [None]      # restrict the identifier pool to these columns (C05: no `*_id` / `*_name` primary-key candidates)
# how a plain description OPENS ("the <name>" everywhere; C05 varies it: a marker-stripping step must not eat an opener that merely
# begins with one of the marker's characters).  The choice is a function of the name, so emitting and expecting agree.
OPENERS = [None]
SQL_OPENERS = ["the {}", "Primary {} of the record", "Key {} of the table", "[{}] as bracketed", "Per-{} setting", "K"]
# C01-C03, C08: plain descriptions that open differently, among them characters whose case-folded form is LONGER than the character
# (sharp s, the fi ligature): text positions computed on a folded copy do not fit the original
DOC_OPENERS = ["the {}", "the {} (Gr\u00f6\u00dfe)", "\ufb01ne-grained {}", "the {}"]
ALLOW_KEYS = [set()]     # extra entry keys the comparison tolerates (C05: the synthetic id's server_default)


class Gamma(object):
    def __init__(self, seed=0):
        self.rnd = random.Random(seed)

    def pick(self, pool, salt):
        return pool[(self.rnd.randrange(1 << 16) if False else salt) % len(pool)]

    def name(self, k, salt):
        cols = NAME_COLS[0] or [0, 1, 2, 3]
        return NAMES[k % len(NAMES)][cols[salt % len(cols)]]

    def default(self, d, typ, salt):
        """abstract default -> (present, concrete value)"""
        if d == "absent":
            return False, None
        if d == "None":
            return True, NoneStr
        if d == "int_pos":
            return True, INT_POS[salt % len(INT_POS)]
        if d == "int_zero":
            return True, 0
        if d == "int_neg":
            return True, INT_NEG[salt % len(INT_NEG)]
        if d == "float_pos":
            return True, FLOAT_POS[salt % len(FLOAT_POS)]
        if d == "float_neg":
            return True, FLOAT_NEG[salt % len(FLOAT_NEG)]
        if d == "bool_T":
            return True, True
        if d == "bool_F":
            return True, False
        if d == "str":
            if typ in LIT_MEMBERS:
                return True, LIT_MEMBERS[typ][-1]
            return True, STRS[salt % len(STRS)]
        if d == "str_empty":
            return True, ""
        if d == "str_odd":
            return True, ["two words", "~/a b/c", "semi;colon, comma"][salt % 3]
        if d == "str_dot":
            return True, ["~/data/x.txt", "v1.2"][salt % 2]
        if d == "str_kw":
            return True, ["path", "list", "true"][salt % 3]
        if d == "float_exp":
            return True, [1e-07, 2.5e+20][salt % 2]
        if d == "int_big":
            return True, [2 ** 40, 2 ** 35 + 1][salt % 2]
        if d == "code":
            return True, "```operator.add(1, 2)```"
        if d == "expr":
            return True, "```max(1, 2)```"
        # outcomes of named deviations
        if d == "expr_requoted":
            return True, "'```max(1, 2)```'"
        if d == "none_requoted":
            return True, "'```(None)```'"
        if d == "str_paren_None":
            return True, "(None)"
        if d == "str_None":
            return True, "None"
        if d == "float_of_int_neg":
            return True, float(INT_NEG[salt % len(INT_NEG)])
        if d == "float_of_int_pos":
            return True, float(INT_POS[salt % len(INT_POS)])
        if d == "zero_int":
            return True, 0
        if d == "zero_float":
            return True, 0.0
        if d == "zero_str":
            return True, ""
        if d == "zero_bool":
            return True, False
        if d == "str_of_code":
            return True, "operator.add(1, 2)"
        raise KeyError("no concretisation for default " + d)

    def doc(self, c, name):
        if c == "absent":
            return False, None
        if OPENERS[0] and c in ("plain", "dot", "pk", "fk"):
            opener = OPENERS[0][sum(map(ord, name)) % len(OPENERS[0])].format(name)
            return True, {"plain": "{}", "dot": "{}.", "pk": "[PK] {}", "fk": "[FK(other_tbl.id)] {}"}[c].format(opener)
        if c == "plain":
            return True, "the {}".format(name)
        if c == "dot":
            return True, "the {}.".format(name)
        if c == "long":
            text = ("the {} is described by a sentence that is long enough to be wrapped at the configured line length of one hundred "
                    "columns and then some more words follow it until it is wrapped twice over if need be").format(name)
            # exactly LONG_LEN characters (a sweep over consecutive lengths then puts the wrap column on EVERY position of the line,
            # also between two particular words); a cut that ends in a blank ends in a letter instead
            cut = text[:LONG_LEN[0]]
            return True, cut[:-1] + "x" if cut.endswith(" ") else cut
        if c == "multi":
            return True, "the {}\nsecond line of it".format(name)
        if c == "trig_number":
            return True, "number of {} to use".format(name)
        if c == "trig_whether":
            return True, "whether to use the {}".format(name)
        if c == "trig_listof":
            return True, "list of {} values".format(name)
        if c == "trig_or":
            return True, "the {}, one of `sgd` or `adam`".format(name)
        if c == "trig_default":
            return True, "the {}. Default: 5".format(name)
        if c == "comma_default":
            return True, "the {}, defaults to 5".format(name)
        if c == "doc_colon":
            return True, "the {}: see below".format(name)
        if c == "doc_paren":
            return True, "the {} (in bytes)".format(name)
        if c == "doc_question":
            return True, "is {} set?".format(name)
        if c == "word_defaults":
            return True, "the {}; overrides the library defaults".format(name)
        if c == "ellipsis":
            return True, "the {}, its friends, etc...".format(name)
        if c == "residue":
            return True, "the {}. Defaults to".format(name)
        if c == "pk":
            return True, "[PK] the {}".format(name)
        if c == "fk":
            return True, "[FK(other_tbl.id)] the {}".format(name)
        if c == "pkonly":
            return True, "[PK]"
        raise KeyError("no concretisation for doc " + c)

    def entry(self, e, name, salt):
        out = OrderedDict()
        has_doc, doc = self.doc(e["doc"], name)
        if has_doc:
            out["doc"] = doc
        has_def, dv = self.default(e["def"], e["typ"], salt)
        if has_def:
            out["default"] = dv
        if e["typ"] not in ("absent", "none"):
            out["typ"] = TYP[e["typ"]]
        return out

    def iface(self, i, salt=0, name="Config"):
        """abstract interface -> concrete IR"""
        params = OrderedDict()
        for k, p in enumerate(i["params"]):
            nm = CAND_NAMES[k % len(CAND_NAMES)] if p.get("nm") == "cand" else self.name(k, salt)
            params[nm] = self.entry(p, nm, salt + k)
        ret = None
        if i["ret"]["typ"] != "none":
            ret = OrderedDict((("return_type", self.entry(i["ret"], "result", salt)),))
        doc = {"absent": "", "one": "The summary line", "multi": "The summary line\n\nA longer paragraph of prose."}[i["doc"]]
        return {"name": name, "type": "static", "doc": doc, "params": params, "returns": ret}

    def expected(self, x, i, salt=0):
        """abstract expectation (Norm / AsBuilt output) -> concrete expectation:
        {"doc", "params": [(name, {"typs": set|None, "default": (present, value), "doc": str})...], "ret": ...}"""
        def ent(e, name, s, orig_typ):
            if not e["present"]:
                return None
            has_def, dv = (False, None) if e["def"] == "any" else self.default(e["def"], orig_typ, s)
            has_doc, doc = self.doc(e["doc"], name) if e["doc"] not in ("any",) else (True, None)
            return {"typs": [None if t == "absent" else TYP[t] for t in e["typs"]],
                    "default": [has_def, dv], "doc": doc if has_doc else "", "doc_any": e["doc"] == "any",
                    "def_any": e["def"] == "any", "wild": bool(e.get("wild"))}
        params = []
        for k, e in enumerate(x["params"]):
            nm = e.get("name") or (CAND_NAMES[k % len(CAND_NAMES)] if e.get("nm") == "cand" else self.name(k, salt))
            params.append([nm, ent(e, nm, salt + k, i["params"][k]["typ"] if k < len(i["params"]) else "absent")])
        ret = ent(x["ret"], "result", salt, i["ret"]["typ"])
        doc = {"absent": "", "one": "The summary line", "multi": "The summary line\n\nA longer paragraph of prose.",
               "any": None}[x["doc"]]
        return {"doc": doc, "params": params, "ret": ret}


STRIP_DEFAULTS = [False]


def canon_doc(s):
    """descriptions are compared up to whitespace and a terminal full stop (and, when the configuration asked for the
    default to be documented in prose, up to that trailing 'Defaults to ...' sentence)"""
    if s is None or s == "<<absent>>":
        return ""
    if STRIP_DEFAULTS[0]:
        s = re.sub(r"[.]?\s*Defaults to .*$", "", s, flags=re.S)
    s = re.sub(r"\s+", " ", s).strip()
    if s.endswith("."):
        s = s[:-1].rstrip()
    return s


def same_default(real_enc, value):
    """real_enc = [typename, repr] (see real.enc); same value AND same Python type"""
    return real_enc == [type(value).__name__, repr(value)]


def compare(real, exp, strip_defaults=False):
    """real = real.plain(ir); exp = Gamma.expected(...) -> list of (where, what) differences (empty = equal)"""
    STRIP_DEFAULTS[0] = strip_defaults
    try:
        return _compare(real, exp)
    finally:
        STRIP_DEFAULTS[0] = False


def _compare(real, exp):
    diffs = []
    if exp["doc"] is not None and canon_doc(real["doc"]) != canon_doc(exp["doc"]):
        diffs.append(("doc", "interface description {!r} != {!r}".format(real["doc"], exp["doc"])))
    want = [(n, e) for n, e in exp["params"] if e is not None]
    got = real["params"]
    if [n for n, _ in want] != [n for n, _ in got]:
        diffs.append(("names", "parameter names/order {} != {}".format([n for n, _ in got], [n for n, _ in want])))
        return diffs
    for (n, e), (_, g) in zip(want, got):
        diffs += _cmp_entry("param", n, g, e)
    rets = real["returns"]
    if exp["ret"] is None:
        if rets:
            diffs.append(("ret", "unexpected return entry {}".format(rets)))
    else:
        if not rets or list(rets) != ["return_type"]:
            diffs.append(("ret", "return entry missing or malformed: {}".format(rets)))
        else:
            diffs += _cmp_entry("ret", "return_type", rets["return_type"], exp["ret"])
    return diffs


def _cmp_entry(kind, n, g, e):
    d = []
    if e.get("wild"):
        return d
    t = g.get("typ")
    if t not in e["typs"]:
        d.append((kind + ".typ", "{}: type {!r} not in {}".format(n, t, e["typs"])))
    if not e.get("def_any"):
        has, val = e["default"]
        if has != ("default" in g):
            d.append((kind + ".default", "{}: default {} but expected {}".format(
                n, g.get("default", "absent"), repr(val) if has else "absent")))
        elif has and not same_default(g["default"], val):
            d.append((kind + ".default", "{}: default {} != {!r} ({})".format(n, g["default"], val, type(val).__name__)))
    if not e.get("doc_any") and canon_doc(g.get("doc")) != canon_doc(e["doc"]):
        d.append((kind + ".doc", "{}: description {!r} != {!r}".format(n, g.get("doc"), e["doc"])))
    extra = set(g) - {"typ", "doc", "default", "x_typ"} - ALLOW_KEYS[0]
    if extra:
        d.append((kind + ".keys", "{}: unexpected keys {}".format(n, sorted(extra))))
    return d
