"""(X) Extraction: the package's own top-level import / bind / use statements -> spec/ImportsData.tla

Statement records (uniform): [k, mod, pre, names, chain, binds]
  k = "import": `import a.b.c [as x]` of a package module; pre = dotted prefixes shortest first; binds
  k = "from":   `from X import n [as m], ...` with X in the package; names = imported names; binds
  k = "use":    module-level attribute chain rooted at a bound package name: chain = <<root, a, b, ...>>
  k = "bind":   names bound by any other statement (def/class/assign/foreign import)
"""

import ast
import os
import sys

PKG = "cdd"


def module_files(repo):
    out = {}
    root = os.path.join(repo, PKG)
    for d, dirs, files in os.walk(root):
        dirs[:] = sorted(x for x in dirs if x != "__pycache__")
        for f in sorted(files):
            if not f.endswith(".py"):
                continue
            rel = os.path.relpath(os.path.join(d, f), repo)[:-3].split(os.sep)
            if rel[-1] == "__init__":
                rel = rel[:-1]
            out[".".join(rel)] = os.path.join(d, f)
    return out


def is_public(m):
    parts = m.split(".")
    return "tests" not in parts


def _static_env(modname):
    vi = sys.version_info
    mm = tuple(vi[:2])
    return {
        "sys": sys,
        "version_info": vi,
        "PY3_8": mm == (3, 8),
        "PY_GTE_3_8": mm >= (3, 8),
        "PY_GTE_3_9": mm >= (3, 9),
        "PY_GTE_3_10": mm >= (3, 10),
        "PY_GTE_3_11": mm >= (3, 11),
        "PY_GTE_3_12": mm >= (3, 12),
        "__name__": modname,
    }


def _chains(node):
    """maximal attribute chains rooted at a Name, in evaluation (source) order"""
    out = []

    class V(ast.NodeVisitor):
        def visit_Attribute(self, n):
            parts = []
            cur = n
            while isinstance(cur, ast.Attribute):
                parts.append(cur.attr)
                cur = cur.value
            if isinstance(cur, ast.Name):
                out.append((cur.lineno, cur.col_offset, [cur.id] + parts[::-1]))
            else:
                self.visit(cur)

        def visit_FunctionDef(self, n):
            # executed at definition time: decorators, defaults, annotations
            for d in n.decorator_list:
                self.visit(d)
            a = n.args
            for x in a.defaults + [d for d in a.kw_defaults if d is not None]:
                self.visit(x)
            for arg in a.posonlyargs + a.args + a.kwonlyargs + [x for x in (a.vararg, a.kwarg) if x]:
                if arg.annotation is not None:
                    self.visit(arg.annotation)
            if n.returns is not None:
                self.visit(n.returns)

        visit_AsyncFunctionDef = visit_FunctionDef

        def visit_Lambda(self, n):
            for x in n.args.defaults + [d for d in n.args.kw_defaults if d is not None]:
                self.visit(x)

    V().visit(node)
    out.sort(key=lambda t: (t[0], t[1]))
    return [c for _, _, c in out]


def _targets(node):
    names = []
    if isinstance(node, (ast.FunctionDef, ast.AsyncFunctionDef, ast.ClassDef)):
        names.append(node.name)
    elif isinstance(node, ast.Assign):
        for t in node.targets:
            names += [n.id for n in ast.walk(t) if isinstance(n, ast.Name)]
    elif isinstance(node, (ast.AnnAssign, ast.AugAssign)):
        names += [n.id for n in ast.walk(node.target) if isinstance(n, ast.Name)]
    elif isinstance(node, (ast.For, ast.AsyncFor)):
        names += [n.id for n in ast.walk(node.target) if isinstance(n, ast.Name)]
    elif isinstance(node, (ast.With, ast.AsyncWith)):
        for it in node.items:
            if it.optional_vars is not None:
                names += [n.id for n in ast.walk(it.optional_vars) if isinstance(n, ast.Name)]
    return names


def extract_module(modname, path, universe):
    with open(path, "rb") as f:
        src = f.read()
    tree = ast.parse(src, filename=path)
    is_pkg = os.path.basename(path) == "__init__.py"
    stmts = []
    env = _static_env(modname)

    def prefixes(dotted):
        parts = dotted.split(".")
        return [".".join(parts[: i + 1]) for i in range(len(parts))]

    def resolve_from(node):
        if node.level:
            base = modname.split(".") if is_pkg else modname.split(".")[:-1]
            if node.level > 1:
                base = base[: len(base) - (node.level - 1)]
            return ".".join(base + ([node.module] if node.module else []))
        return node.module

    def body(nodes, in_class=False):
        for node in nodes:
            if isinstance(node, ast.Import):
                for a in node.names:
                    if a.name.split(".")[0] == PKG:
                        stmts.append(
                            dict(k="import", mod=a.name, pre=prefixes(a.name), names=[], chain=[],
                                 binds=[a.asname or a.name.split(".")[0]], line=node.lineno)
                        )
                    else:
                        stmts.append(dict(k="bind", mod="", pre=[], names=[], chain=[],
                                          binds=[a.asname or a.name.split(".")[0]], line=node.lineno))
            elif isinstance(node, ast.ImportFrom):
                src_mod = resolve_from(node)
                if src_mod and src_mod.split(".")[0] == PKG:
                    names = [a.name for a in node.names if a.name != "*"]
                    stmts.append(
                        dict(k="from", mod=src_mod, pre=prefixes(src_mod), names=names, chain=[],
                             binds=[a.asname or a.name for a in node.names if a.name != "*"], line=node.lineno)
                    )
                else:
                    stmts.append(dict(k="bind", mod="", pre=[], names=[], chain=[],
                                      binds=[a.asname or a.name for a in node.names if a.name != "*"],
                                      line=node.lineno))
            elif isinstance(node, ast.If):
                taken = None
                try:
                    taken = bool(eval(compile(ast.Expression(node.test), "<test>", "eval"), dict(env)))
                except Exception:
                    taken = None
                for c in _chains(node.test):
                    use(c, node.lineno)
                if taken is None:
                    body(node.body, in_class)
                    body(node.orelse, in_class)
                elif taken:
                    body(node.body, in_class)
                else:
                    body(node.orelse, in_class)
            elif isinstance(node, ast.Try):
                body(node.body, in_class)
                # handlers run only on failure; the package's try-blocks guard stdlib imports
                body(node.orelse, in_class)
                body(node.finalbody, in_class)
            elif isinstance(node, ast.ClassDef):
                for x in node.decorator_list + node.bases + [k.value for k in node.keywords]:
                    for c in _chains(x):
                        use(c, node.lineno)
                body(node.body, True)
                if not in_class:
                    stmts.append(dict(k="bind", mod="", pre=[], names=[], chain=[], binds=[node.name],
                                      line=node.lineno))
            else:
                for c in _chains(node):
                    use(c, node.lineno)
                t = _targets(node)
                if t and not in_class:
                    stmts.append(dict(k="bind", mod="", pre=[], names=[], chain=[], binds=t, line=node.lineno))

    def use(chain, line):
        if chain[0] == PKG or any(
            s["k"] == "import" and chain[0] in s["binds"] and chain[0] != PKG for s in stmts
        ):
            # rooted at the package (or an `import cdd.x as y` alias, expanded)
            root = chain[0]
            if root != PKG:
                imp = [s for s in stmts if s["k"] == "import" and root in s["binds"]][-1]
                chain = imp["mod"].split(".") + chain[1:]
            stmts.append(dict(k="use", mod="", pre=[], names=[], chain=chain, binds=[], line=line))

    body(tree.body)
    return stmts


def extract(repo):
    files = module_files(repo)
    prog = {m: extract_module(m, p, files) for m, p in files.items()}
    return files, prog


def tla_str(s):
    return '"' + s + '"'


def tla_seq(xs):
    return "<<" + ", ".join(xs) + ">>"


def write_tla(repo, out_path, module_name="ImportsData"):
    files, prog = extract(repo)
    mods = sorted(files)
    starts = [m for m in mods if is_public(m)]
    lines = ["---- MODULE {} ----".format(module_name),
             "\\* GENERATED from the working tree by harness/imports_extract.py -- do not edit",
             "Mods == {" + ", ".join(tla_str(m) for m in mods) + "}",
             "StartSeq == " + tla_seq(tla_str(m) for m in starts),
             "Parent == [m \\in Mods |-> CASE " + " [] ".join(
                 "m = {} -> {}".format(tla_str(m), tla_str(m.rpartition(".")[0])) for m in mods) + "]",
             "Pre == [m \\in Mods |-> CASE " + " [] ".join(
                 "m = {} -> {}".format(tla_str(m), tla_seq(tla_str(".".join(m.split(".")[: i + 1]))
                                                         for i in range(len(m.split("."))))) for m in mods) + "]",
             "Last == [m \\in Mods |-> CASE " + " [] ".join(
                 "m = {} -> {}".format(tla_str(m), tla_str(m.rpartition(".")[2])) for m in mods) + "]",
             ]
    plines = []
    for m in mods:
        recs = []
        for s in prog[m]:
            recs.append(
                "[k |-> {}, mod |-> {}, pre |-> {}, names |-> {}, chain |-> {}, binds |-> {}]".format(
                    tla_str(s["k"]), tla_str(s["mod"]), tla_seq(map(tla_str, s["pre"])),
                    tla_seq(map(tla_str, s["names"])), tla_seq(map(tla_str, s["chain"])),
                    tla_seq(map(tla_str, s["binds"])))
            )
        plines.append("  m = {} -> {}".format(tla_str(m), tla_seq(recs)))
    lines.append("Prog == [m \\in Mods |-> CASE\n" + "\n  [] ".join(plines) + "]")
    lines.append("====")
    with open(out_path, "w") as f:
        f.write("\n".join(lines) + "\n")
    return files, prog, starts


if __name__ == "__main__":
    fs, pr, st = write_tla(sys.argv[1], sys.argv[2])
    print(len(fs), "modules", sum(len(v) for v in pr.values()), "statements", len(st), "starts")
