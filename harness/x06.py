"""X06 -- optimise_imports conforms to ImportOpt.tla.   (Specification coverage, not a listed property.)

TLC: ImportOpt.tla -- Coverage, Sound, NoDup, Idempotent, Sorted with the level in the de-duplication key (designed); as built (level not in
     the key) the last four hold and Coverage must be REFUTED (MC_ImportOpt_asbuilt_coverage.cfg).
R:   every sequence of <= MaxLen `from .. import ..` statements over 2 modules x 2 levels x 5 name lists is built as real ast.ImportFrom nodes
     and handed to the real optimise_imports; the statements that come back -- module, level, names and aliases, in order -- must be the
     as-built model's.
"""

import ast
import json

from harness.common import MachineryError, pmap


def node_of(s):
    return ast.ImportFrom(module=s["mod"], level=s["level"],
                          names=[ast.alias(name=n["name"], asname=None if n["as"] == "-" else n["as"]) for n in s["names"]])


def project(nodes):
    return [{"mod": n.module, "level": n.level, "names": [{"name": a.name, "as": a.asname or "-"} for a in n.names]} for n in nodes]


def run_batch(cases):
    from cdd.shared.ast_utils import optimise_imports

    out = []
    for c in cases:
        try:
            got = project(optimise_imports([node_of(s) for s in c["inp"]]))
        except Exception as e:  # noqa
            out.append("optimise_imports raises {}: {}".format(type(e).__name__, str(e)[:80]))
            continue
        out.append(None if got == c["out"] else "returns {} but ImportOpt!Opt says {}".format(got, c["out"]))
    return out


def check(run, replay=None):
    n = 2 if run.tier == "quick" else 3
    run.rule = ("case = a sequence of <= {} import statements (module m/n, level 0/1, five name lists incl. an alias and both orders); the real "
                "optimise_imports must return the as-built model's statements, in order").format(n)
    run.assumptions += ["X06 is specification coverage, not one of the listed properties"]
    run.tlc("ImportOpt", "MC_ImportOpt_designed.cfg", workers=4, timeout=900)
    run.tlc("ImportOpt", "MC_ImportOpt_asbuilt.cfg", workers=4, timeout=900)
    r = run.tlc("ImportOpt", "MC_ImportOpt_asbuilt_coverage.cfg", expect_ok=False, workers=1, timeout=900)
    if r.violated != "Coverage":
        raise MachineryError("ImportOpt.tla as built does not exhibit the recorded departure (Coverage)")
    r = run.tlc("ImportOpt", "MC_ImportOpt_dump.cfg", shards=4, timeout=1800, constants={"MaxLen": n})
    cases = r.printed
    want = sum(20 ** k for k in range(n + 1))
    if len(cases) != want:
        raise MachineryError("ImportOpt dump produced {} inputs, expected {}".format(len(cases), want))
    k = 0
    for rb in pmap(run_batch, [cases[i:i + 256] for i in range(0, len(cases), 256)], chunksize=1):
        for res in rb:
            c = cases[k]
            k += 1
            run.replayed += 1
            key = json.dumps(c["inp"], sort_keys=True)
            if res is None:
                run.held(key if c["inp"] else None)
            else:
                run.violation("optimise_imports({}): {}".format(json.dumps(c["inp"])[:200], res[:300]), {"case": c}, key=key)
            if len(run.samples) < 2 and len(c["inp"]) == 2 and len(c["out"]) == 1:
                run.sample({"input": c["inp"], "output": c["out"]})
    run.exhaustive = True
