"""C10 -- output is a deterministic function of the input alone.

TLC: Determinism.tla -- Functional (and Covered) for two processes with different seeds and call histories, over all
     functions of <= 3 (quick) / 4 (thorough) parameters whose docstring documents any permutation of any subset;
     the pinned merge rule (set iteration) must be REJECTED by TLC on every run.
V:   the TLC-enumerated inputs (plus classes, emitters on gamma-interfaces with inferred imports, mock docstrings) are
     executed in fresh interpreter processes with different PYTHONHASHSEEDs and different call orders (natural,
     reversed, every call twice, shuffled), some of them on ONE parsed object the process keeps; the verdict is equality of the output hash per (api, input); the merged events are
     validated by TLC against TraceDeterminism.tla.
"""

import json
import os
import random
import shutil
import subprocess
import tempfile
from concurrent.futures import ThreadPoolExecutor

from harness.common import NCPU, PY, REPO, VERIF, MachineryError

IFACES = [
    {"doc": "one", "params": [{"typ": "int", "def": "int_pos", "doc": "plain"}, {"typ": "Opt_str", "def": "None", "doc": "dot"},
                              {"typ": "Lit", "def": "str", "doc": "plain"}], "ret": {"typ": "none", "def": "absent", "doc": "absent"}},
    {"doc": "one", "params": [{"typ": "List_str", "def": "absent", "doc": "plain"}, {"typ": "Union_int_str", "def": "int_neg", "doc": "plain"},
                              {"typ": "Opt_float", "def": "float_pos", "doc": "plain"}, {"typ": "bool", "def": "bool_T", "doc": "plain"}],
     "ret": {"typ": "Opt_str", "def": "absent", "doc": "plain"}},
    {"doc": "multi", "params": [{"typ": "Dotted", "def": "absent", "doc": "plain"}, {"typ": "Opt_dict", "def": "None", "doc": "plain"},
                                {"typ": "str", "def": "str", "doc": "pk"}], "ret": {"typ": "int", "def": "absent", "doc": "plain"}},
    {"doc": "one", "params": [{"typ": "Lit3u", "def": "str", "doc": "plain"}, {"typ": "float", "def": "float_neg", "doc": "dot"}],
     "ret": {"typ": "none", "def": "absent", "doc": "absent"}},
    # Determinism!CallTable: plain columns of type names the emitters' lookup tables do not hold ...
    {"doc": "one", "params": [{"typ": "Named", "def": "absent", "doc": "plain"}, {"typ": "Bytes", "def": "absent", "doc": "plain"},
                              {"typ": "Dotted", "def": "absent", "doc": "plain"}], "ret": {"typ": "none", "def": "absent", "doc": "absent"}},
    # ... and, as a SEPARATE input (so that call order decides which comes first), columns that consult the tables by membership of those names
    {"doc": "one", "params": [{"typ": "Union_int_Named", "def": "absent", "doc": "plain"}, {"typ": "Union_Named_int", "def": "absent", "doc": "plain"},
                              {"typ": "List_Named", "def": "absent", "doc": "plain"}, {"typ": "Opt_Named", "def": "absent", "doc": "plain"},
                              {"typ": "Union_str_Bytes", "def": "absent", "doc": "plain"}],
     "ret": {"typ": "none", "def": "absent", "doc": "absent"}},
]
EMIT = ["class", "pydantic", "function", "function_edd", "argparse", "json_schema", "sqlalchemy", "sqlalchemy_table", "sqlalchemy_hybrid",
        "docstring:rest", "docstring:google", "docstring:numpydoc"]


POP_DEFS = {"int": ["absent", "int_pos", "int_zero", "int_neg"], "float": ["absent", "float_pos", "zero_float", "float_neg"],
            "bool": ["absent", "bool_T", "bool_F"], "str": ["absent", "str", "str_empty", "str_odd"],
            "Opt_int": ["None", "int_pos", "int_zero"], "Opt_float": ["None", "float_pos", "zero_float"], "Opt_bool": ["None", "bool_T", "bool_F"],
            "Opt_str": ["None", "str"], "Lit": ["absent", "str"], "List_str": ["absent"], "Union_int_str": ["absent", "int_pos"], "Dotted": ["absent"]}


def _population(seed, n):
    rnd = random.Random(seed * 7919 + 11)
    out = []
    for _ in range(n):
        params = []
        for _k in range(rnd.randint(1, 3)):
            t = rnd.choice(sorted(POP_DEFS))
            params.append({"typ": t, "def": rnd.choice(POP_DEFS[t]), "doc": rnd.choice(["plain", "dot"])})
        out.append({"doc": "one", "params": params,
                    "ret": rnd.choice([{"typ": "none", "def": "absent", "doc": "absent"}, {"typ": "int", "def": "absent", "doc": "plain"}])})
    return out


def run_worker(args):
    seed, order, jobs, work = args
    jf = os.path.join(work, "job_{}_{}.json".format(seed, order))
    with open(jf, "w") as f:
        json.dump(jobs, f)
    env = dict(os.environ)
    env["PYTHONHASHSEED"] = str(seed)
    env["PYTHONPATH"] = VERIF + os.pathsep + REPO
    p = subprocess.run([PY, "-m", "harness.det_worker", jf], cwd=work, env=env, stdout=subprocess.PIPE,
                       stderr=subprocess.PIPE, timeout=1200)
    if p.returncode != 0:
        return seed, order, None, p.stderr.decode("utf-8", "replace")[-600:]
    return seed, order, json.loads(p.stdout.decode()), None


def check(run, replay=None):
    work = tempfile.mkdtemp(prefix="verif-c10-")
    try:
        _check(run, replay, work)
    finally:
        shutil.rmtree(work, ignore_errors=True)


def _check(run, replay, work):
    quick = run.tier == "quick"
    run.rule = ("observation = (api, input) executed in a fresh interpreter with a given PYTHONHASHSEED and call order; inputs: "
                "TLC-enumerated partially documented functions/classes, emitters+inferred imports on 6 interfaces x 12 formats (two of them with type names that the emitters' lookup tables do not hold, plain and inside Union / List / Optional), "
                "mock docstrings, a seeded population of 24 (quick) / 120 (thorough) interfaces x 12 formats with equal-valued defaults of different types, 4 source objects x 8 targets converted from one object kept for the life of the process and from fresh copies; distinct = distinct (api, input); all observations of one (api, input) must hash equal")
    # ---------------- TLC ----------------
    n = 3 if quick else 4
    r = run.tlc("Determinism", "MC_Determinism.cfg", constants={"MaxSig": 3, "MaxCalls": 2}, timeout=3000)
    if not quick:
        run.tlc("Determinism", "MC_Determinism.cfg", constants={"MaxSig": 4, "MaxCalls": 1}, timeout=3000)
    rp = run.tlc("Determinism", "MC_Determinism_pinned.cfg", expect_ok=False, timeout=600)
    if rp.violated != "Functional":
        raise MachineryError("Determinism.tla does not reject the set-iteration merge (vacuous Functional?)")
    rp = run.tlc("Determinism", "MC_Determinism_pinned_scan.cfg", expect_ok=False, timeout=600)
    if rp.violated != "Functional":
        raise MachineryError("Determinism.tla does not reject the set-ordered phrase scan (vacuous Functional?)")
    rp = run.tlc("Determinism", "MC_Determinism_aliased.cfg", expect_ok=False, timeout=600)
    if rp.violated != "Functional":
        raise MachineryError("Determinism.tla does not reject an IR that shares the body with the caller's object (vacuous Functional?)")
    run.tlc("Determinism", "MC_Determinism_table.cfg", timeout=600)
    rp = run.tlc("Determinism", "MC_Determinism_registry.cfg", expect_ok=False, timeout=600)
    if rp.violated != "Functional":
        raise MachineryError("Determinism.tla does not reject a lookup table that grows with the calls (vacuous Functional?)")
    run.extra["pinned_merge_rejected_by_tlc"] = True
    # the inputs: enumerate with a dump run (single worker so that lines stay intact)
    spec_inputs = _enumerate_inputs(run, n)
    jobs = []
    for x in spec_inputs:
        if x.get("phr"):
            tag = "".join(map(str, x["phr"]))
            jobs.append({"api": "function.parse", "id": "s:{}".format(tag), "input": {"n": 1, "doc": [1], "typed": False, "phr": x["phr"]}})
            jobs.append({"api": "class.parse", "id": "sc:{}".format(tag), "input": {"n": 1, "doc": [1], "phr": x["phr"]}})
            for style in ("rest", "google", "numpydoc"):
                jobs.append({"api": "docstring.parse", "id": "sd:{}:{}".format(style, tag), "input": {"style": style, "phr": x["phr"]}})
            continue
        for typed in (False, True):
            jobs.append({"api": "function.parse", "id": "f{}:{}:{}".format(x["n"], "".join(map(str, x["doc"])), int(typed)),
                         "input": {"n": x["n"], "doc": x["doc"], "typed": typed}, "model_out": x["out"]})
        jobs.append({"api": "class.parse", "id": "c{}:{}".format(x["n"], "".join(map(str, x["doc"]))),
                     "input": {"n": x["n"], "doc": x["doc"]}})
    for k, i in enumerate(IFACES):
        for fmt in EMIT:
            jobs.append({"api": "emit." + fmt, "id": "i{}".format(k), "input": {"i": i, "salt": k}})
    # a seeded population of interfaces from the shared abstract domain, among them defaults of DIFFERENT types that compare EQUAL
    # (True / 1 / 1.0, False / 0 / 0.0): whatever a process remembers between calls -- a cache keyed by equality, a table that grows --
    # shows as soon as two orders of the same calls are compared
    for k, i in enumerate(_population(run.seed, 24 if quick else 120)):
        for fmt in EMIT:
            jobs.append({"api": "emit." + fmt, "id": "r{}".format(k), "input": {"i": i, "salt": k}})
    # conversions of ONE parsed object the caller keeps for the life of the process (Determinism!CallShared), next to conversions of a
    # freshly parsed copy of the same text: all are observations of the same (api, input)
    from harness import det_worker

    for src in sorted(det_worker.SOURCES):
        for tgt in det_worker.TARGETS:
            for shared in (False, True):
                jobs.append({"api": "conv." + tgt, "id": "k:" + src, "input": {"src": src, "shared": shared}})
    # mock docstrings of the repository
    try:
        import ast as _ast
        with open(os.path.join(REPO, "cdd", "tests", "mocks", "docstrings.py")) as f:
            tree = _ast.parse(f.read())
        texts = sorted({c.value for c in _ast.walk(tree) if isinstance(c, _ast.Constant) and isinstance(c.value, str)
                        and ("param" in c.value or "Args" in c.value or "Parameters" in c.value) and len(c.value) < 3000})
        for k, t in enumerate(texts[: 15 if quick else 80]):
            jobs.append({"api": "docstring.parse", "id": "mock{}".format(k), "input": {"text": t}})
    except (OSError, SyntaxError):
        pass
    if replay:
        with open(replay) as f:
            want = json.load(f)["case"]
        jobs = [j for j in jobs if j["api"] == want["api"] and j["id"] == want["input"]]
    seeds = [0, 1, 2, 3, "random"] if quick else list(range(12)) + ["random", "random"]
    rnd = random.Random(run.seed)
    shuffled = list(jobs)
    rnd.shuffle(shuffled)
    orders = {"natural": jobs, "reversed": jobs[::-1], "twice": [j for j in jobs for _ in (0, 1)], "shuffled": shuffled}
    tasks = []
    for s in seeds:
        for o in (("natural", "twice") if quick else orders):
            tasks.append((s, o, orders[o], work))
    tasks.append((seeds[1], "reversed", orders["reversed"], work))
    tasks.append((seeds[2], "shuffled", orders["shuffled"], work))
    with ThreadPoolExecutor(max_workers=NCPU) as ex:
        results = list(ex.map(run_worker, tasks))
    events = []
    by_key = {}
    heads = {}
    grown = set()
    for k, (s, o, out, err) in enumerate(results):
        if out is None:
            raise MachineryError("determinism worker failed (seed {}, order {}): {}".format(s, o, err))
        for e in [e for e in out if e["api"] == "__state__"]:
            grown.update(e["changed"])
        for j, e in enumerate(e for e in out if e["api"] != "__state__"):
            proc = "seed={}/order={}/proc={}/call={}".format(s, o, k, j)
            events.append({"api": e["api"], "input": e["input"], "sha": e["sha"], "proc": proc})
            by_key.setdefault((e["api"], e["input"]), {}).setdefault(e["sha"], []).append(proc)
            heads[(e["api"], e["input"], e["sha"])] = e["head"]
            run.replayed += 1
    n_bad = 0
    for (api, inp), shas in sorted(by_key.items()):
        if len(shas) > 1:
            n_bad += 1
            ex_ = [(sha, procs[0], heads[(api, inp, sha)][:160]) for sha, procs in list(shas.items())[:3]]
            run.violation("{} on input {} produced {} different outputs across processes: {}".format(api, inp, len(shas), ex_),
                          {"api": api, "input": inp}, key=(api, inp))
        else:
            run.held((api, inp), n=sum(len(v) for v in shas.values()))
    run.sample({"api": events[0]["api"], "input": events[0]["input"], "sha": events[0]["sha"], "proc": events[0]["proc"]})
    # diagnostic (Determinism!TableReadOnly): a process-wide table of the package that is not what it was before the calls
    for name in sorted(grown):
        run.model_drift("Determinism: the module-level table {} changed during the calls (as built, Registers = FALSE: tables are only read)".format(name))
    run.extra["module_tables_changed"] = sorted(grown)
    run.extra["observations"] = len(events)
    run.extra["processes"] = len(tasks)
    # model vs real on the modelled API (diagnostic): the order of parameter names
    # ---------------- V: TLC validates the merged events ----------------
    ev = [{"api": e["api"], "input": e["input"], "sha": e["sha"], "proc": e["proc"]} for e in events]
    ev.append({"api": "CORRUPT", "input": "x", "sha": "1", "proc": "a"})
    ev.append({"api": "CORRUPT", "input": "x", "sha": "2", "proc": "b"})
    tf = os.path.join(work, "events.json")
    with open(tf, "w") as f:
        json.dump(ev, f)
    r = run.tlc("TraceDeterminism", "MC_TraceDeterminism.cfg", workers=1, env={"TRACE_FILE": tf}, timeout=3000)
    rej = [d for d in r.printed if isinstance(d, dict) and "reject" in d]
    if not any(d["reject"] == "CORRUPT" for d in rej):
        raise MachineryError("binding demonstration failed: TraceDeterminism accepted two different outputs for one input")
    real_rej = {(d["reject"], d["input"]) for d in rej if d["reject"] != "CORRUPT"}
    bad_keys = {k for k, v in by_key.items() if len(v) > 1}
    if real_rej != bad_keys:
        run.model_drift("TraceDeterminism rejected {} keys, the harness found {} non-functional keys".format(len(real_rej), len(bad_keys)))
    run.extra["trace_events_rejected"] = len(rej) - 1


def _enumerate_inputs(run, n):
    from harness.common import run_tlc
    r = run_tlc("Determinism", "MC_Determinism_inputs.cfg", workers=1, constants={"MaxSig": n}, timeout=600)
    if r.rc != 0 or not r.printed:
        raise MachineryError("Determinism input enumeration failed:\n" + r.stdout[-1500:])
    seen, out = set(), []
    for d in r.printed:
        k = (d["n"], tuple(d["doc"]), tuple(d.get("phr") or ()))
        if k not in seen:
            seen.add(k)
            out.append(d)
    return out
