"""Worker for C10: executes a list of (api, input) jobs in this interpreter process (whose PYTHONHASHSEED the parent
chose) in the given order and prints one JSON line per call: {"api", "input", "sha"}.  Run as a subprocess."""

import ast
import contextlib
import hashlib
import io
import json
import sys


PHRASES = {1: "It defaults to 5.", 2: "Default value is 7.", 3: "Default: 9."}


def describe(k, phr):
    """the description of parameter k; `phr` = the default-announcing phrases it contains, in textual order"""
    return "the p{}. ".format(k) + " On TPU: ".join(PHRASES[x] for x in (phr or ())) if phr else "the p{}".format(k)


def build_docstring(style, phr):
    d = describe(1, phr)
    if style == "rest":
        return "\nThe summary\n\n:param p1: {}\n:type p1: ```int```\n".format(d)
    if style == "google":
        return "\nThe summary\n\nArgs:\n  p1 (int): {}\n".format(d)
    return "\nThe summary\n\nParameters\n----------\np1 : int\n    {}\n".format(d)


def build_function(n, doc, typed, phr=None):
    names = ["p{}".format(k) for k in range(1, n + 1)]
    sig = ", ".join("{}: int = {}".format(x, k) if typed else x for k, x in enumerate(names))
    lines = ["def f({}):".format(sig), '    """', "    The summary", ""]
    for k in doc:
        lines.append("    :param p{0}: {1}".format(k, describe(k, phr)))
        if not typed:
            lines.append("    :type p{0}: ```int```".format(k))
        lines.append("")
    lines += ['    """', "    return 0", ""]
    return "\n".join(lines)


def build_class(n, doc, phr=None):
    lines = ["class C(object):", '    """', "    The summary", ""]
    for k in doc:
        lines += ["    :cvar p{0}: {1}".format(k, describe(k, phr)), ""]
    lines += ['    """', ""]
    for k in range(1, n + 1):
        lines.append("    p{0}: int = {0}".format(k))
    return "\n".join(lines) + "\n"


# ---- conversions of one parsed object that the caller keeps (Determinism!CallShared) ---------------------------------------------------------
# A caller parses a module ONCE and converts the same node object to several targets (what gen/sync-like drivers do).  SHARED holds that
# object for the life of this process; a job with "shared": false parses the text afresh.  Both are observations of the same (api, input).
SOURCES = {
    "fn_body": '''def scale(value, factor=2):
    """
    Scale a value

    :param value: the value to scale
    :type value: ```int```

    :param factor: the multiplier
    :type factor: ```int```

    :return: the scaled value
    :rtype: ```int```
    """
    result = value * factor
    print("scaled", value, "by", factor)
    return result
''',
    "class_call": '''class Scale(object):
    """
    Scale a value

    :cvar value: the value to scale
    :cvar factor: the multiplier
    :cvar return_type: the scaled value
    """

    value: int = 1
    factor: int = 2
    return_type: int = 0

    def __call__(self):
        result = self.value * self.factor
        print("scaled", self.value, "by", self.factor)
        return result
''',
    "class_local": '''class Scale(object):
    """
    Scale a value

    :cvar value: the value to scale
    :cvar factor: the multiplier
    :cvar return_type: the scaled value
    """

    value: int = 1
    factor: int = 2
    return_type: int = 0

    def __call__(self):
        factor = self.factor or 1
        return self.value * factor
''',
    "argparse_body": '''def set_cli_args(argument_parser):
    """
    Set CLI arguments

    :param argument_parser: argument parser
    :type argument_parser: ```ArgumentParser```

    :return: argument_parser, the scaled value
    :rtype: ```Tuple[ArgumentParser, int]```
    """
    argument_parser.description = "Scale a value"
    argument_parser.add_argument("--value", type=int, help="the value to scale", required=True)
    argument_parser.add_argument("--factor", type=int, help="the multiplier", required=True, default=2)
    return argument_parser, 0
''',
}
SHARED = {}
TARGETS = ("function", "class", "class_call", "argparse", "docstring", "json_schema", "pydantic", "sqlalchemy")


def convert_shared(src, tgt, shared):
    import cdd.argparse_function.emit
    import cdd.argparse_function.parse
    import cdd.class_.emit
    import cdd.class_.parse
    import cdd.docstring.emit
    import cdd.function.emit
    import cdd.function.parse
    import cdd.json_schema.emit
    import cdd.pydantic.emit
    import cdd.sqlalchemy.emit
    from cdd.shared.source_transformer import to_code

    if shared:
        if src not in SHARED:
            SHARED[src] = ast.parse(SOURCES[src]).body[0]
        node = SHARED[src]
    else:
        node = ast.parse(SOURCES[src]).body[0]
    ir = {"fn_body": cdd.function.parse.function, "class_call": cdd.class_.parse.class_, "class_local": cdd.class_.parse.class_,
          "argparse_body": cdd.argparse_function.parse.argparse_ast}[src](node)
    if tgt == "function":
        return to_code(cdd.function.emit.function(ir, function_name=None, function_type=None if src == "fn_body" else "static"))
    if tgt == "class":
        return to_code(cdd.class_.emit.class_(ir, class_name="Scale"))
    if tgt == "class_call":
        return to_code(cdd.class_.emit.class_(ir, class_name="Scale", emit_call=True))
    if tgt == "argparse":
        return to_code(cdd.argparse_function.emit.argparse_function(ir))
    if tgt == "docstring":
        return cdd.docstring.emit.docstring(ir)
    if tgt == "json_schema":
        return json.dumps(cdd.json_schema.emit.json_schema(ir))
    if tgt == "pydantic":
        return to_code(cdd.pydantic.emit.pydantic(ir, class_name="Scale"))
    if tgt == "sqlalchemy":
        return to_code(cdd.sqlalchemy.emit.sqlalchemy(ir, class_name="Scale", table_name="scale_tbl"))
    raise KeyError(tgt)


def run_job(job):
    from harness import gamma as G
    from harness import real

    api, inp = job["api"], job["input"]
    if api.startswith("conv."):
        return convert_shared(inp["src"], api[5:], inp["shared"])
    if api == "function.parse":
        import cdd.function.parse

        fn = ast.parse(build_function(inp["n"], inp["doc"], inp.get("typed", False), inp.get("phr"))).body[0]
        return json.dumps(real.plain(cdd.function.parse.function(fn)))
    if api == "class.parse":
        import cdd.class_.parse

        cls = ast.parse(build_class(inp["n"], inp["doc"], inp.get("phr"))).body[0]
        return json.dumps(real.plain(cdd.class_.parse.class_(cls)))
    if api.startswith("emit."):
        import copy
        import cdd.shared.ast_utils
        from cdd.shared.source_transformer import to_code

        fmt = api[5:]
        ir = G.Gamma(0).iface(inp["i"], inp.get("salt", 0))
        if fmt.startswith("docstring"):
            import cdd.docstring.emit

            return cdd.docstring.emit.docstring(copy.deepcopy(ir), docstring_format=fmt.split(":")[1])
        if fmt == "json_schema":
            import cdd.json_schema.emit

            return json.dumps(cdd.json_schema.emit.json_schema(copy.deepcopy(ir)))
        if fmt == "class":
            import cdd.class_.emit

            node = cdd.class_.emit.class_(copy.deepcopy(ir), class_name="C")
        elif fmt == "pydantic":
            import cdd.pydantic.emit

            node = cdd.pydantic.emit.pydantic(copy.deepcopy(ir), class_name="C")
        elif fmt in ("function", "function_edd"):
            import cdd.function.emit

            node = cdd.function.emit.function(copy.deepcopy(ir), function_name="f", function_type="static",
                                              **({"emit_default_doc": True} if fmt == "function_edd" else {}))
        elif fmt == "argparse":
            import cdd.argparse_function.emit

            node = cdd.argparse_function.emit.argparse_function(copy.deepcopy(ir))
        elif fmt in ("sqlalchemy", "sqlalchemy_table", "sqlalchemy_hybrid"):
            import cdd.sqlalchemy.emit

            if fmt == "sqlalchemy_table":
                node = cdd.sqlalchemy.emit.sqlalchemy_table(copy.deepcopy(ir), name="config_tbl")
            else:
                node = getattr(cdd.sqlalchemy.emit, fmt)(copy.deepcopy(ir), class_name="Config", table_name="config_tbl")
        else:
            raise KeyError(fmt)
        src = to_code(node)
        mod = ast.parse(src)
        imports = cdd.shared.ast_utils.infer_imports(mod)
        imp = "" if not imports else "\n".join(to_code(x) for x in imports)
        names = cdd.shared.ast_utils.get_names(mod) if hasattr(cdd.shared.ast_utils, "get_names") else None
        return src + "\n#imports\n" + imp + "\n#names\n" + (json.dumps(list(names)) if names is not None and not isinstance(names, dict) else json.dumps(list(names or [])))
    if api == "docstring.parse":
        import cdd.docstring.parse

        text = inp["text"] if "text" in inp else build_docstring(inp["style"], inp["phr"])
        return json.dumps(real.plain(cdd.docstring.parse.docstring(text)))
    raise KeyError(api)


def module_state():
    """every module-level dict / list / set of the package (Determinism.tla's `reg`: process-wide tables), as name -> digest"""
    snap = {}
    for name, mod in sorted(sys.modules.items()):
        if not name.startswith("cdd.") or name.startswith("cdd.tests") or mod is None:
            continue
        for attr, val in sorted(vars(mod).items()):
            if attr.startswith("__") or not isinstance(val, (dict, list, set)):
                continue
            try:
                body = repr(sorted(map(repr, val.items()))) if isinstance(val, dict) else repr(sorted(map(repr, val)))
            except Exception:  # noqa
                continue
            snap["{}.{}".format(name, attr)] = hashlib.sha256(body.encode("utf-8", "replace")).hexdigest()[:16]
    return snap


def main():
    with open(sys.argv[1]) as f:
        jobs = json.load(f)
    out = []
    # load what the jobs will load, so that the tables exist before the first call
    for m in ("argparse_function.emit", "argparse_function.parse", "class_.emit", "class_.parse", "docstring.emit", "docstring.parse",
              "function.emit", "function.parse", "json_schema.emit", "json_schema.parse", "pydantic.emit", "sqlalchemy.emit",
              "sqlalchemy.parse", "shared.ast_utils", "shared.source_transformer"):
        try:
            __import__("cdd." + m)
        except Exception:  # noqa -- C18 judges imports
            pass
    before = module_state()
    for job in jobs:
        try:
            with contextlib.redirect_stdout(io.StringIO()), contextlib.redirect_stderr(io.StringIO()):
                res = run_job(job)
        except Exception as e:  # noqa
            res = "raises:{}:{}".format(type(e).__name__, str(e)[:200])
        out.append({"api": job["api"], "input": job["id"], "sha": hashlib.sha256(res.encode("utf-8", "replace")).hexdigest()[:20],
                    "head": res[:300]})
    after = module_state()
    out.append({"api": "__state__", "changed": sorted(k for k in before if after.get(k) != before[k])})
    json.dump(out, sys.stdout)


if __name__ == "__main__":
    main()
