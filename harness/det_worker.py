"""Worker for C10: executes a list of (api, input) jobs in this interpreter process (whose PYTHONHASHSEED the parent
chose) in the given order and prints one JSON line per call: {"api", "input", "sha"}.  Run as a subprocess."""

import ast
import contextlib
import hashlib
import io
import json
import sys


PHRASES = {1: "It defaults to 5.", 2: "Default value is 7.", 3: "Default: 9."}


def describe(k, phr):
    """the description of parameter k; `phr` = the default-announcing phrases it contains, in textual order"""
    return "the p{}. ".format(k) + " On TPU: ".join(PHRASES[x] for x in (phr or ())) if phr else "the p{}".format(k)


def build_docstring(style, phr):
    d = describe(1, phr)
    if style == "rest":
        return "\nThe summary\n\n:param p1: {}\n:type p1: ```int```\n".format(d)
    if style == "google":
        return "\nThe summary\n\nArgs:\n  p1 (int): {}\n".format(d)
    return "\nThe summary\n\nParameters\n----------\np1 : int\n    {}\n".format(d)


def build_function(n, doc, typed, phr=None):
    names = ["p{}".format(k) for k in range(1, n + 1)]
    sig = ", ".join("{}: int = {}".format(x, k) if typed else x for k, x in enumerate(names))
    lines = ["def f({}):".format(sig), '    """', "    The summary", ""]
    for k in doc:
        lines.append("    :param p{0}: {1}".format(k, describe(k, phr)))
        if not typed:
            lines.append("    :type p{0}: ```int```".format(k))
        lines.append("")
    lines += ['    """', "    return 0", ""]
    return "\n".join(lines)


def build_class(n, doc, phr=None):
    lines = ["class C(object):", '    """', "    The summary", ""]
    for k in doc:
        lines += ["    :cvar p{0}: {1}".format(k, describe(k, phr)), ""]
    lines += ['    """', ""]
    for k in range(1, n + 1):
        lines.append("    p{0}: int = {0}".format(k))
    return "\n".join(lines) + "\n"


def run_job(job):
    from harness import gamma as G
    from harness import real

    api, inp = job["api"], job["input"]
    if api == "function.parse":
        import cdd.function.parse

        fn = ast.parse(build_function(inp["n"], inp["doc"], inp.get("typed", False), inp.get("phr"))).body[0]
        return json.dumps(real.plain(cdd.function.parse.function(fn)))
    if api == "class.parse":
        import cdd.class_.parse

        cls = ast.parse(build_class(inp["n"], inp["doc"], inp.get("phr"))).body[0]
        return json.dumps(real.plain(cdd.class_.parse.class_(cls)))
    if api.startswith("emit."):
        import copy
        import cdd.shared.ast_utils
        from cdd.shared.source_transformer import to_code

        fmt = api[5:]
        ir = G.Gamma(0).iface(inp["i"], inp.get("salt", 0))
        if fmt.startswith("docstring"):
            import cdd.docstring.emit

            return cdd.docstring.emit.docstring(copy.deepcopy(ir), docstring_format=fmt.split(":")[1])
        if fmt == "json_schema":
            import cdd.json_schema.emit

            return json.dumps(cdd.json_schema.emit.json_schema(copy.deepcopy(ir)))
        if fmt == "class":
            import cdd.class_.emit

            node = cdd.class_.emit.class_(copy.deepcopy(ir), class_name="C")
        elif fmt == "pydantic":
            import cdd.pydantic.emit

            node = cdd.pydantic.emit.pydantic(copy.deepcopy(ir), class_name="C")
        elif fmt == "function":
            import cdd.function.emit

            node = cdd.function.emit.function(copy.deepcopy(ir), function_name="f", function_type="static")
        elif fmt == "argparse":
            import cdd.argparse_function.emit

            node = cdd.argparse_function.emit.argparse_function(copy.deepcopy(ir))
        elif fmt in ("sqlalchemy", "sqlalchemy_table", "sqlalchemy_hybrid"):
            import cdd.sqlalchemy.emit

            if fmt == "sqlalchemy_table":
                node = cdd.sqlalchemy.emit.sqlalchemy_table(copy.deepcopy(ir), name="config_tbl")
            else:
                node = getattr(cdd.sqlalchemy.emit, fmt)(copy.deepcopy(ir), class_name="Config", table_name="config_tbl")
        else:
            raise KeyError(fmt)
        src = to_code(node)
        mod = ast.parse(src)
        imports = cdd.shared.ast_utils.infer_imports(mod)
        imp = "" if not imports else "\n".join(to_code(x) for x in imports)
        names = cdd.shared.ast_utils.get_names(mod) if hasattr(cdd.shared.ast_utils, "get_names") else None
        return src + "\n#imports\n" + imp + "\n#names\n" + (json.dumps(list(names)) if names is not None and not isinstance(names, dict) else json.dumps(list(names or [])))
    if api == "docstring.parse":
        import cdd.docstring.parse

        text = inp["text"] if "text" in inp else build_docstring(inp["style"], inp["phr"])
        return json.dumps(real.plain(cdd.docstring.parse.docstring(text)))
    raise KeyError(api)


def main():
    with open(sys.argv[1]) as f:
        jobs = json.load(f)
    out = []
    for job in jobs:
        try:
            with contextlib.redirect_stdout(io.StringIO()), contextlib.redirect_stderr(io.StringIO()):
                res = run_job(job)
        except Exception as e:  # noqa
            res = "raises:{}:{}".format(type(e).__name__, str(e)[:200])
        out.append({"api": job["api"], "input": job["id"], "sha": hashlib.sha256(res.encode("utf-8", "replace")).hexdigest()[:20],
                    "head": res[:300]})
    json.dump(out, sys.stdout)


if __name__ == "__main__":
    main()
