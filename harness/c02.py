"""C02 -- class / pydantic / function / argparse emit -> render -> re-read -> parse round-trip.

TLC: Formats.tla -- RoundTrip on the ideal rules, RoundTripOrDeviation on the as-built rules (open findings enabled).
R:   every dumped behaviour is concretised, emitted with the real emitter, rendered to source text, re-read with
     ast.parse and parsed with the matching real parser; verdict: real re-parsed IR == gamma(Norm(cfg, i)).
"""

import random

from harness import conv
from harness import gamma as G
from harness.common import NCPU

FMTS = '{"class", "pydantic", "function", "argparse"}'


def check(run, replay=None):
    G.OPENERS[0] = G.DOC_OPENERS      # (inherited by the forked replay workers)
    run.rule = ("case = (format, docstring style, emit_default_doc, [type_annotations, kw-only]) x signature-legal interface of "
                "0..2 typed parameters (14 type shapes x compatible defaults x 2 description kinds) + optional return entry (with a literal / "
                "code-quoted / None default when there are <= 1 parameters); "
                "distinct = distinct (cfg, interface); non-trivial = at least one parameter")
    run.assumptions += ["untyped entries and entries without a description are outside the modelled domain",
                        "with emit_default_doc=True the trailing 'Defaults to ...' sentence of a description is not compared"]
    if replay:
        conv.replay_one(run, replay)
        return
    quick = run.tier == "quick"
    run.tlc("Formats", "MC_Formats_ideal.cfg", constants={"MaxParams": 2, "Reduced": "TRUE", "Fmts": FMTS},
            workers=NCPU, timeout=3000)
    cases1 = conv.dump_cases(run, "Formats", "MC_Formats_dump.cfg", {"MaxParams": 1, "Reduced": "TRUE", "Fmts": FMTS})
    cases2 = conv.dump_cases(run, "Formats", "MC_Formats_dump.cfg",
                             {"MaxParams": 2, "Reduced": "TRUE" if quick else "FALSE", "Fmts": FMTS}, require_devs=False)
    cases2 = [c for c in cases2 if len(c["i"]["params"]) == 2]
    if quick:
        cases2 = random.Random(run.seed).sample(cases2, min(5000, len(cases2)))
    else:
        run.exhaustive = True
    conv.replay(run, cases1 + cases2, "format", label="emit->render->parse")
