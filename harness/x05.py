"""X05 -- doctrans moves types and converts styles as DocMove.tla says.   (Specification coverage, not a listed property.)

TLC: DocMove.tla -- NoTypeLost, Moved, OnePlace, Idempotent on doctrans AS DESIGNED; as built the first three hold and Idempotent must be
     FOUND violated (the Google style drifts; MC_DocMove_asbuilt_idem.cfg).
R:   every behaviour (layout of the types of four entries x source style x target configuration, two consecutive runs) is concretised into a
     real module, the real doctrans runs twice, and after each run the places where each entry's type is written (signature annotation,
     docstring type as the real docstring parser reads it) and "did this run rewrite the file" are compared with the model.
"""

import ast
import contextlib
import io
import json
import os
import shutil
import tempfile

from harness.common import MachineryError, pmap

TYPES = {"a": "int", "b": "str", "c": "Optional[float]", "ret": "bool"}
DEFAULTS = {"a": None, "b": "'x'", "c": "None"}


def docstring_of(style, lay):
    ps = ["a", "b", "c"]
    t = {e: TYPES[e] if lay[e] in ("doc", "both") else None for e in TYPES}
    lines = ["Do the thing", ""]
    if style == "rest":
        for p in ps:
            lines.append(":param {0}: the {0}".format(p))
            if t[p]:
                lines.append(":type {}: ```{}```".format(p, t[p]))
            lines.append("")
        lines.append(":return: the result")
        if t["ret"]:
            lines.append(":rtype: ```{}```".format(t["ret"]))
    elif style == "google":
        lines.append("Args:")
        for p in ps:
            lines.append("  {}{}: the {}".format(p, " ({})".format(t[p]) if t[p] else "", p))
        lines += ["", "Returns:"]
        lines += ["  {}:".format(t["ret"]), "   the result"] if t["ret"] else ["  the result"]
    else:
        lines += ["Parameters", "----------"]
        for p in ps:
            lines += ["{}{}".format(p, " : {}".format(t[p]) if t[p] else ""), "    the {}".format(p)]
        if t["ret"]:      # (a Returns section without a type line is not NumPy style: the return is then left undocumented)
            lines += ["", "Returns", "-------", t["ret"], "    the result"]
    return "\n".join(("    " + ln) if ln else "" for ln in lines)


def source_of(style, lay, retexpr=False):
    args = []
    for p in ("a", "b", "c"):
        ann = ": {}".format(TYPES[p]) if lay[p] in ("sig", "both") else ""
        d = DEFAULTS[p]
        args.append(p + ann + ((" = " if ann else "=") + d if d else ""))
    ret = " -> {}".format(TYPES["ret"]) if lay["ret"] in ("sig", "both") else ""
    return ("from typing import Optional\n\n\ndef f({}){}:\n    \"\"\"\n{}\n    \"\"\"\n    {}\n".format(
        ", ".join(args), ret, docstring_of(style, lay), "return bool(a)" if retexpr else "print(a)"))


def observe(text):
    """-> ({entry: type written in the signature?}, {entry: type written in the docstring?}) of the module's function f"""
    import cdd.docstring.parse

    fn = next(n for n in ast.parse(text).body if isinstance(n, ast.FunctionDef))
    sig = {a.arg: "T" if a.annotation is not None else "none" for a in fn.args.args}
    sig["ret"] = "T" if fn.returns is not None else "none"
    with contextlib.redirect_stdout(io.StringIO()), contextlib.redirect_stderr(io.StringIO()):
        ir = cdd.docstring.parse.docstring(ast.get_docstring(fn, clean=True) or "")
    doc = {p: "T" if (ir["params"].get(p) or {}).get("typ") else "none" for p in ("a", "b", "c")}
    r = (ir.get("returns") or {}).get("return_type") or {}
    doc["ret"] = "T" if r.get("typ") else "none"
    return sig, doc


def run_one(args):
    case, workroot = args
    import cdd.compound.doctrans as dt

    d = tempfile.mkdtemp(prefix="x05-", dir=workroot)
    try:
        p = os.path.join(d, "m.py")
        src = source_of(case["from"], case["lay"], case.get("retexpr", False))
        compile(src, p, "exec")
        with open(p, "w") as f:
            f.write(src)
        texts = [src]
        for _ in range(2):
            try:
                with contextlib.redirect_stdout(io.StringIO()), contextlib.redirect_stderr(io.StringIO()):
                    dt.doctrans(filename=p, docstring_format=case["cfg"]["style"], type_annotations=case["cfg"]["ann"], no_word_wrap=None)
            except Exception as e:  # noqa
                return {"err": "doctrans raises {}: {}".format(type(e).__name__, str(e)[:80]), "src": src}
            with open(p) as f:
                texts.append(f.read())
        try:
            sig, doc = observe(texts[2])
        except Exception as e:  # noqa
            return {"err": "the result cannot be observed: {}: {}".format(type(e).__name__, str(e)[:80]), "src": src, "after": texts[2]}
        return {"sig": sig, "doc": doc, "second_run_rewrote": texts[2] != texts[1], "first_run_rewrote": texts[1] != texts[0],
                "src": src, "after": texts[2]}
    finally:
        shutil.rmtree(d, ignore_errors=True)


def _batch(items):
    return [run_one(a) for a in items]


def check(run, replay=None):
    run.rule = ("behaviour = (where each of four entries' types is written: signature / docstring / both / nowhere) x source style x target "
                "(style, --type-annotations) x two consecutive runs of the real doctrans; compared: the places of every type afterwards and "
                "whether the second run rewrote the file")
    run.assumptions += ["X05 is specification coverage, not one of the listed properties",
                        "a docstring type is `written` iff the real docstring parser returns a type for that entry"]
    run.tlc("DocMove", "MC_DocMove_designed.cfg", workers=4, timeout=600)
    run.tlc("DocMove", "MC_DocMove_asbuilt.cfg", workers=4, timeout=600)
    for cfg, prop in (("MC_DocMove_asbuilt_idem.cfg", "Idempotent"), ("MC_DocMove_asbuilt_lost.cfg", "NoTypeLost")):
        r = run.tlc("DocMove", cfg, expect_ok=False, workers=1, timeout=600)
        if r.violated != prop:
            raise MachineryError("DocMove.tla as built does not exhibit the recorded departure ({})".format(prop))
    r = run.tlc("DocMove", "MC_DocMove_dump.cfg", shards=4, timeout=600)
    # the as-built machine is nondeterministic for the Google style: the terminal states of one behaviour are grouped, their `rev`s
    # are the allowed outcomes
    grouped = {}
    for c in r.printed:
        k = json.dumps([c["lay"], c["from"], c["cfg"], c.get("retexpr")], sort_keys=True)
        if k in grouped:
            grouped[k]["revs"].add(c["rev"])
        else:
            c = dict(c)
            c["revs"] = {c["rev"]}
            grouped[k] = c
    cases = list(grouped.values())
    if len(cases) < 200:
        raise MachineryError("DocMove dump produced {} behaviours".format(len(cases)))
    work = tempfile.mkdtemp(prefix="verif-x05-")
    tri = {}
    drifted = [0]
    try:
        items = [({k: v for k, v in c.items() if k != "revs"}, work) for c in cases]
        n = 0
        for rb in pmap(_batch, [items[k:k + 8] for k in range(0, len(items), 8)], chunksize=1):
            for res in rb:
                c = cases[n]
                n += 1
                run.replayed += 1
                key = json.dumps([c["lay"], c["from"], c["cfg"], c.get("retexpr")], sort_keys=True)
                label = "types {} in a {} docstring{} -> {}{}".format(
                    ",".join("{}:{}".format(e, c["lay"][e]) for e in ("a", "b", "c", "ret")), c["from"],
                    ", returning an expression" if c.get("retexpr") else "", c["cfg"]["style"],
                    " --type-annotations" if c["cfg"]["ann"] else " --no-type-annotations")
                if "err" in res:
                    fails = [res["err"]]
                else:
                    fails = []
                    for e in ("a", "b", "c", "ret"):
                        if res["sig"].get(e) != c["sig"][e]:
                            fails.append("{}: signature type {} but DocMove says {}".format(e, res["sig"].get(e), c["sig"][e]))
                        if res["doc"].get(e) != c["doc"][e]:
                            fails.append("{}: docstring type {} but DocMove says {}".format(e, res["doc"].get(e), c["doc"][e]))
                    allowed = {rv >= 2 for rv in c["revs"]}
                    if res["second_run_rewrote"] not in allowed:
                        fails.append("the second run {} the file but DocMove says it {}".format(
                            "rewrote" if res["second_run_rewrote"] else "left", "rewrites it" if True in allowed else "leaves it"))
                    if res["second_run_rewrote"]:
                        drifted[0] += 1
                if fails:
                    run.violation("{}: {}".format(label, "; ".join(fails[:4])), {"case": c, "source": res.get("src"), "after": res.get("after")}, key=key)
                    k2 = (c["from"], c["cfg"]["style"], c["cfg"]["ann"], c.get("retexpr"), c["lay"]["ret"], fails[0][:70])
                    tri[k2] = tri.get(k2, 0) + 1
                else:
                    run.held(key)
                if len(run.samples) < 2 and "after" in res and not fails:
                    run.sample({"behaviour": label, "after": res["after"][:500]})
        run.exhaustive = True
        run.extra["behaviours_whose_second_run_rewrote_the_file"] = drifted[0]
    finally:
        shutil.rmtree(work, ignore_errors=True)
    if os.environ.get("VERIF_TRIAGE"):
        for k, v in sorted(tri.items(), key=lambda kv: -kv[1])[:60]:
            print("TRIAGE", v, k)
