"""Drivers of the real cdd API: one emit -> render -> re-read -> parse round per format.

Every function takes a *concrete* IR (a deep copy is made: emitters mutate their input) and returns the re-parsed
IR, normalised to plain dicts {name, doc, params: [(name, {typ?, doc?, default?})...], returns: None | {...}} so that
results can be compared and serialised.  Exceptions propagate to the caller (the harness records `raises:<Type>`).
"""

import ast
import copy
import json
from collections import OrderedDict


def plain(ir):
    """IR -> JSON-able canonical form (order preserved)"""
    if ir is None:
        return None

    def pv(v):
        out = {}
        for k in v:
            x = v[k]
            if k == "default":
                out[k] = enc(x)
            elif k == "x_typ":
                out[k] = json.loads(json.dumps(x, default=lambda o: ast.dump(o) if isinstance(o, ast.AST) else repr(o)))
            elif isinstance(x, ast.AST):
                out[k] = ast.dump(x)
            else:
                out[k] = x
        return out

    rets = ir.get("returns")
    return {
        "name": ir.get("name"),
        "doc": ir.get("doc", "<<absent>>"),
        "params": [[k, pv(v)] for k, v in (ir.get("params") or {}).items()],
        "returns": None if not rets else {k: pv(v) for k, v in rets.items()},
    }


def enc(x):
    """defaults keep their Python type across JSON: [typename, repr]"""
    if isinstance(x, ast.AST):
        return ["ast", ast.dump(x)]
    return [type(x).__name__, repr(x)]


def render(node):
    """AST -> source text -> AST again (the property says: rendered to text and re-read)"""
    from cdd.shared.source_transformer import to_code

    src = to_code(node)
    mod = ast.parse(src)
    return src, mod


def _only(mod, kind):
    found = [n for n in mod.body if isinstance(n, kind)]
    assert len(found) == 1, "expected exactly one {} in rendered module, got {}".format(kind, len(found))
    return found[0]


def rt_docstring(ir, style="rest", edd=True, et=True, ww=True, parse_edd=None, indent=0):
    import cdd.docstring.emit
    import cdd.docstring.parse

    text = cdd.docstring.emit.docstring(
        copy.deepcopy(ir), docstring_format=style, emit_default_doc=edd, emit_types=et, word_wrap=ww, indent_level=indent
    )
    back = cdd.docstring.parse.docstring(
        text, emit_default_doc=edd if parse_edd is None else parse_edd, infer_type=not et,
    )
    return text, back


def rt_class(ir, style="rest", edd=False, ww=True):
    import cdd.class_.emit
    import cdd.class_.parse

    node = cdd.class_.emit.class_(copy.deepcopy(ir), class_name=ir.get("name") or "C", docstring_format=style,
                                  emit_default_doc=edd, word_wrap=ww)
    src, mod = render(node)
    return src, cdd.class_.parse.class_(_only(mod, ast.ClassDef))


def rt_pydantic(ir, style="rest", edd=False, ww=True):
    import cdd.pydantic.emit
    import cdd.pydantic.parse

    node = cdd.pydantic.emit.pydantic(copy.deepcopy(ir), class_name=ir.get("name") or "C", docstring_format=style,
                                      emit_default_doc=edd, word_wrap=ww)
    src, mod = render(node)
    return src, cdd.pydantic.parse.pydantic(_only(mod, ast.ClassDef))


def rt_function(ir, style="rest", edd=False, ann=True, kwonly=True, ww=True):
    import cdd.function.emit
    import cdd.function.parse

    node = cdd.function.emit.function(copy.deepcopy(ir), function_name=ir.get("name") or "f", function_type="static",
                                      docstring_format=style, emit_default_doc=edd, type_annotations=ann,
                                      emit_as_kwonlyargs=kwonly, word_wrap=ww)
    src, mod = render(node)
    return src, cdd.function.parse.function(_only(mod, ast.FunctionDef))


def rt_argparse(ir, style="rest", edd=False, ww=True):
    import cdd.argparse_function.emit
    import cdd.argparse_function.parse

    node = cdd.argparse_function.emit.argparse_function(copy.deepcopy(ir), docstring_format=style,
                                                        emit_default_doc=edd, word_wrap=ww)
    src, mod = render(node)
    return src, cdd.argparse_function.parse.argparse_ast(_only(mod, ast.FunctionDef))


def rt_json(ir, edd=False):
    import cdd.json_schema.emit
    import cdd.json_schema.parse

    schema = cdd.json_schema.emit.json_schema(copy.deepcopy(ir), emit_default_doc=edd)
    text = json.dumps(schema)
    return text, cdd.json_schema.parse.json_schema(json.loads(text, object_pairs_hook=OrderedDict))


def rt_sql(ir, variant="sqlalchemy", style="rest", force_pk=True, edd=True):
    import cdd.sqlalchemy.emit
    import cdd.sqlalchemy.parse

    name = ir.get("name") or "Config"
    if variant == "sqlalchemy_table":
        node = cdd.sqlalchemy.emit.sqlalchemy_table(copy.deepcopy(ir), name=name, table_name=name.lower() + "_tbl"
                                                    if False else name, force_pk_id=force_pk, docstring_format=style,
                                                    emit_default_doc=edd)
        src, mod = render(node)
        return src, cdd.sqlalchemy.parse.sqlalchemy_table(_only(mod, (ast.Assign, ast.AnnAssign)))
    emit = getattr(cdd.sqlalchemy.emit, variant)
    node = emit(copy.deepcopy(ir), class_name=name, table_name=name, force_pk_id=force_pk, docstring_format=style,
                emit_default_doc=edd)
    src, mod = render(node)
    return src, getattr(cdd.sqlalchemy.parse, variant)(_only(mod, ast.ClassDef))


ROUND = {
    "docstring": rt_docstring,
    "class": rt_class,
    "pydantic": rt_pydantic,
    "function": rt_function,
    "argparse": rt_argparse,
    "json_schema": rt_json,
    "sqlalchemy": lambda ir, **kw: rt_sql(ir, "sqlalchemy", **kw),
    "sqlalchemy_table": lambda ir, **kw: rt_sql(ir, "sqlalchemy_table", **kw),
    "sqlalchemy_hybrid": lambda ir, **kw: rt_sql(ir, "sqlalchemy_hybrid", **kw),
}
