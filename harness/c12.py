"""C12 -- sync makes every target equivalent to the truth, then is a no-op.

TLC: Sync.tla -- AllEquivalent, TruthUnchanged, AroundUnchanged (invariants) and SecondRunNoop (action property) over all
     initial triples of (class file, method file, argparse file) holding mutually different interfaces or missing / empty,
     with or without surrounding code, x truth x 1..3 runs; ideal and as built.
R:   every behaviour is laid out as three real files (targets emitted by the real emitters from three fixed interfaces,
     surrounded by unrelated imports / definitions), the real `sync` command runs in-process 2 (quick) / 3 (thorough) times;
     after every run each target is re-parsed with the matching real parser and compared with the truth's interface, the
     surrounding code and the truth file are compared with their originals, and the bytes of run n+1 with those of run n.
V:   the same runs are recorded as traces -- per run and file: raised / named target present / equivalent to the truth / bytes changed /
     surroundings kept -- and validated by TLC against Sync.tla's OWN action as built (TraceSync.tla EXTENDS Sync; a corrupted trace must
     be rejected on every run).  TLC's verdict decides attribution: a behaviour on which the predicates fail is a KNOWN-FINDING only if
     its trace is exactly a behaviour of the as-built model; otherwise it is a VIOLATION.  (Trace validation made the as-built model
     exact twice: the misnamed class needs the file to be MISSING, and it settles after three runs.)
"""

import ast
import contextlib
import copy
import hashlib
import io
import json
import os
import random
import shutil
import tempfile

from harness import gamma as G
from harness.common import NCPU, MachineryError, pmap

IFACES = {
    "A": {"doc": "one", "params": [{"typ": "int", "def": "int_pos", "doc": "plain"}, {"typ": "str", "def": "str", "doc": "plain"}],
          "ret": {"typ": "none", "def": "absent", "doc": "absent"}},
    "A2": {"doc": "one", "params": [{"typ": "int", "def": "int_pos", "doc": "plain"}, {"typ": "str", "def": "str", "doc": "plain"},
                                     {"typ": "bool", "def": "bool_T", "doc": "absent"}], "ret": {"typ": "none", "def": "absent", "doc": "absent"}},
    "B": {"doc": "one", "params": [{"typ": "float", "def": "float_pos", "doc": "plain"}, {"typ": "bool", "def": "bool_T", "doc": "plain"},
                                    {"typ": "int", "def": "int_neg", "doc": "plain"}], "ret": {"typ": "none", "def": "absent", "doc": "absent"}},
    "C": {"doc": "one", "params": [{"typ": "str", "def": "str", "doc": "dot"}], "ret": {"typ": "none", "def": "absent", "doc": "absent"}},
    # a required parameter (no default) of a non-builtin type, a defaulted scalar, and an Optional[str] with a concrete default
    "D": {"doc": "one", "params": [{"typ": "Opt_float", "def": "absent", "doc": "plain"}, {"typ": "int", "def": "int_pos", "doc": "plain"},
                                    {"typ": "Opt_str", "def": "str", "doc": "plain"}],
          "ret": {"typ": "none", "def": "absent", "doc": "absent"}},
}
SALT = {"A": 0, "A2": 0, "B": 2, "C": 3, "D": 1}
BEFORE = "import os\nfrom typing import Optional\n\nBEFORE_CONSTANT = 1\n\n\ndef unrelated_before(q=1):\n    \"\"\"not a target\"\"\"\n    return q\n\n\n"
AFTER = "\n\nclass UnrelatedAfter(object):\n    \"\"\"not a target\"\"\"\n\n    z: int = 0\n\n\nAFTER_CONSTANT = 2\n"


# surroundings that NAME the targets (Sync!Arounds "mentions"): strings, __all__, a registry, calls -- before and after the target
BEFORE_M = ('"""\nModule that holds ConfigClass, C.train and set_cli_args\n"""\n\nimport os\nfrom typing import Optional\n\n'
            '__all__ = ["ConfigClass", "C", "train", "set_cli_args"]\nTARGET_NAMES = ("ConfigClass", "train", "set_cli_args")\n\n\n'
            'def describe(name="ConfigClass"):\n    """not a target; mentions train and set_cli_args"""\n    return "set_cli_args" if name == "train" else name\n\n\n')
AFTER_M = ('\n\nREGISTRY = {"ConfigClass": globals().get("ConfigClass"), "train": getattr(globals().get("C"), "train", None),\n'
           '            "set_cli_args": globals().get("set_cli_args")}\n\n\ndef uses_targets():\n    """not a target"""\n'
           '    return [describe("ConfigClass"), describe("train"), describe("set_cli_args")]\n')


def target_source(kind, which, g):
    import cdd.argparse_function.emit
    import cdd.class_.emit
    import cdd.function.emit
    from cdd.shared.source_transformer import to_code

    ir = g.iface(IFACES[which], SALT[which], name="Config")
    if kind == "cls":
        return to_code(cdd.class_.emit.class_(copy.deepcopy(ir), class_name="ConfigClass"))
    if kind == "fn":
        f = cdd.function.emit.function(copy.deepcopy(ir), function_name="train", function_type="self")
        return 'class C(object):\n    """C class"""\n\n' + "\n".join(("    " + ln) if ln.strip() else ln for ln in to_code(f).split("\n"))
    return to_code(cdd.argparse_function.emit.argparse_function(copy.deepcopy(ir), function_name="set_cli_args"))


def core_of(kind, text):
    """parse the named target of a file with the matching real parser -> core [[name, typ, default]...] or an error string"""
    import cdd.argparse_function.parse
    import cdd.class_.parse
    import cdd.function.parse
    from harness import real

    tree = ast.parse(text)
    if kind == "cls":
        node = next((n for n in tree.body if isinstance(n, ast.ClassDef) and n.name == "ConfigClass"), None)
        parser = cdd.class_.parse.class_
    elif kind == "fn":
        c = next((n for n in tree.body if isinstance(n, ast.ClassDef) and n.name == "C"), None)
        node = None if c is None else next((n for n in c.body if isinstance(n, ast.FunctionDef) and n.name == "train"), None)
        if c is None:
            # a target file that had to be created holds the function at the top level
            node = next((n for n in tree.body if isinstance(n, ast.FunctionDef) and n.name == "train"), None)
        parser = cdd.function.parse.function
    else:
        node = next((n for n in tree.body if isinstance(n, ast.FunctionDef) and n.name == "set_cli_args"), None)
        parser = cdd.argparse_function.parse.argparse_ast
    if node is None:
        return "target not found"
    ir = real.plain(parser(copy.deepcopy(node)))
    return [[n, e.get("typ"), e.get("default"), G.canon_doc(e.get("doc"))] for n, e in ir["params"]]


def equivalent(kind, got, want, truth_kind):
    """a target's core equals the truth's.  Where the FUNCTION format is on either side its documented normalisation applies: a
    parameter without default is shown as `=None`, so `Optional[..] = None` and `Optional[..]` without default cannot be told apart"""
    if got == want or "fn" not in (kind, truth_kind) or not isinstance(got, list) or not isinstance(want, list) or len(got) != len(want):
        return got == want
    none = ["str", repr(G.NoneStr)]

    def same(g, w):
        if g == w:
            return True
        if [g[0], g[1], g[3]] != [w[0], w[1], w[3]]:
            return False
        return (kind == "fn" and w[2] is None and g[2] == none) or (truth_kind == "fn" and w[2] == none and g[2] is None)
    return all(same(g, w) for g, w in zip(got, want))


def around_of(text):
    """the code outside the named targets, as dumps"""
    tree = ast.parse(text)
    keep = []
    for n in tree.body:
        if isinstance(n, ast.ClassDef) and n.name in ("ConfigClass", "C"):
            if n.name == "C":
                keep.append(["C-rest", [ast.dump(x) for x in n.body if not (isinstance(x, ast.FunctionDef) and x.name == "train")]])
            continue
        if isinstance(n, ast.FunctionDef) and n.name == "set_cli_args":
            continue
        keep.append(ast.dump(n))
    return keep


def run_case(args):
    case, workroot, nruns = args
    import cdd.__main__ as cli

    g = G.Gamma(0)
    d = tempfile.mkdtemp(prefix="c12-", dir=workroot)
    res = {"case": case, "fails": [], "log": [], "obs": []}
    try:
        paths = {k: os.path.join(d, k + "_file.py") for k in ("cls", "fn", "ap")}
        original = {}
        for k in ("cls", "fn", "ap"):
            f = case["init"][k]
            if f["around"] == "missing":
                continue
            if f["around"] == "empty":
                text = ""
            else:
                with contextlib.redirect_stdout(io.StringIO()), contextlib.redirect_stderr(io.StringIO()):
                    t = target_source(k, f["iface"], g)
                text = ({"both": BEFORE, "mentions": BEFORE_M, "moddoc": '"""Module docstring on one line"""\n' + BEFORE}.get(f["around"], "") + t + "\n"
                        + {"both": AFTER, "mentions": AFTER_M, "moddoc": AFTER}.get(f["around"], ""))
            with open(paths[k], "w") as fh:
                fh.write(text)
            original[k] = text
        truth = case["truth"]
        argv = ["sync", "--truth", {"cls": "class", "fn": "function", "ap": "argparse_function"}[truth],
                "--class", paths["cls"], "--class-name", "ConfigClass", "--function", paths["fn"], "--function-name", "C.train",
                "--argparse-function", paths["ap"], "--argparse-function-name", "set_cli_args"]
        want_core = core_of(truth, original[truth])
        prev = None
        for run_no in range(1, nruns + 1):
            raised = None
            try:
                with contextlib.redirect_stdout(io.StringIO()), contextlib.redirect_stderr(io.StringIO()):
                    cli.main(argv)
            except SystemExit as e:
                raised = "SystemExit"
            except Exception as e:  # noqa
                raised = "{}: {}".format(type(e).__name__, str(e)[:80])
            res["log"].append(raised)
            if raised:
                res["fails"].append(("raises", "run {}: sync raises {}".format(run_no, raised)))
                res["obs"].append({"raised": True, **{k: {"present": False, "eq": False, "changed": False, "around": True} for k in ("cls", "fn", "ap")}})
                break
            now = {}
            for k in ("cls", "fn", "ap"):
                if os.path.exists(paths[k]):
                    with open(paths[k]) as fh:
                        now[k] = fh.read()
            if now.get(truth) is None or core_of(truth, now[truth]) != want_core:
                res["fails"].append(("TruthUnchanged", "run {}: the truth's own interface changed".format(run_no)))
            for k in ("cls", "fn", "ap"):
                if k == truth:
                    continue
                if k not in now:
                    res["fails"].append(("AllEquivalent:" + k, "run {}: target file {} does not exist".format(run_no, k)))
                    continue
                try:
                    got = core_of(k, now[k])
                except SyntaxError as e:
                    res["fails"].append(("AllEquivalent:" + k, "run {}: target file {} is not valid Python: {}".format(run_no, k, e)))
                    continue
                except Exception as e:  # noqa
                    got = "parser raises {}".format(type(e).__name__)
                if not equivalent(k, got, want_core, truth):
                    res["fails"].append(("AllEquivalent:" + k, "run {}: target {} parses to {} but the truth is {}".format(run_no, k, got, want_core)))
                if k in original and original[k].strip():
                    try:
                        if around_of(now[k]) != around_of(original[k]):
                            res["fails"].append(("AroundUnchanged:" + k, "run {}: code outside the named target of {} changed".format(run_no, k)))
                    except SyntaxError:
                        pass
            ob = {"raised": False}
            before_run = prev if prev is not None else original
            for k in ("cls", "fn", "ap"):
                text = now.get(k)
                try:
                    core = core_of(k, text) if text is not None else "target not found"
                except Exception:  # noqa
                    core = "unparsable"
                try:
                    ar = True if not (k in original and original[k].strip()) or text is None else around_of(text) == around_of(original[k])
                except SyntaxError:
                    ar = False
                ob[k] = {"present": isinstance(core, list), "eq": isinstance(core, list) and equivalent(k, core, want_core, truth),
                         "changed": text != before_run.get(k), "around": ar}
            res["obs"].append(ob)
            if prev is not None and now != prev:
                changed = [k for k in now if now.get(k) != prev.get(k)]
                res["fails"].append(("SecondRunNoop", "run {} changed bytes of {} again".format(run_no, changed)))
            prev = now
            if run_no == 1:
                res["fails_run1"] = list(res["fails"])
        return res
    finally:
        shutil.rmtree(d, ignore_errors=True)


def _batch(items):
    return [run_case(a) for a in items]


def check(run, replay=None):
    work = tempfile.mkdtemp(prefix="verif-c12-")
    try:
        _check(run, replay, work)
    finally:
        shutil.rmtree(work, ignore_errors=True)


def _check(run, replay, work):
    from harness import conv

    run.rule = ("behaviour = initial triple (class file, method file, argparse file; each missing / empty / holding one of three mutually "
                "different interfaces with or without surrounding code) x truth x consecutive runs; distinct = distinct (triple, truth)")
    run.assumptions += ["the interfaces are in the common representable domain (scalars with defaults; D has one required Optional[float]), so every "
                        "format can carry them; a None default of an Optional parameter in a function equals `no default` (documented normalisation)",
                        "equivalence is judged on names, order, types, defaults and descriptions as returned by the matching real parser"]
    quick = run.tier == "quick"
    run.tlc("Sync", "MC_Sync_ideal.cfg", workers=4, timeout=600)
    r = run.tlc("Sync", "MC_Sync_dump.cfg", shards=3, timeout=600,
                constants={"MaxRuns": 2 if quick else 3, "Enabled": conv.enabled_constant(run)})
    cases = r.printed
    missing = sorted(set(run.known) - {d for c in cases for d in c["devs"]})
    if missing:
        raise MachineryError("listed C12 findings {} are unreachable in Sync.tla".format(missing))
    if replay:
        with open(replay) as f:
            want = json.load(f)["case"]["case"]
        cases = [c for c in cases if c["truth"] == want["truth"] and c["init"] == want["init"]]
    elif quick:
        cases = random.Random(run.seed).sample(cases, min(320, len(cases)))
    else:
        run.exhaustive = True
    items = [(c, work, 2 if quick else 3) for c in cases]
    tri = {}
    traces, verdicts, pending = [], {}, []
    n = 0
    for rb in pmap(_batch, [items[k:k + 4] for k in range(0, len(items), 4)], chunksize=1):
        for res in rb:
            case = res["case"]
            n += 1
            run.replayed += 1
            key = json.dumps([case["truth"], case["init"]], sort_keys=True)
            tid = "b{}".format(n)
            traces.append({"tid": tid, "truth": case["truth"], "obs": res.get("obs", []),
                           "init": {k: {"iface": case["init"][k]["iface"], "around": case["init"][k]["around"]} for k in ("cls", "fn", "ap")}})
            verdicts[tid] = "held" if not res["fails"] else "not held"
            for d in case["devs"]:
                run.trigger(d)
            label = "truth={} cls={} fn={} ap={}".format(case["truth"], *["{}/{}".format(case["init"][k]["iface"], case["init"][k]["around"])
                                                                          for k in ("cls", "fn", "ap")])
            pending.append((tid, case, res, key, label))
    # (V) TLC validates every recorded behaviour against Sync.tla's own action, as built (the listed findings enabled)
    acc, rej = _validate_traces(run, traces, verdicts, work)
    for tid, case, res, key, label in pending:
        if not res["fails"]:
            run.held(key)
        elif tid in acc and case["devs"]:
            # the property's predicates fail, and the behaviour is EXACTLY the as-built model's (run by run: raised / present / equivalent /
            # bytes changed / surroundings kept): the listed deviations that fire on this behaviour explain it
            for fid in case["devs"]:
                run.finding(fid, "{}: {}".format(label, res["fails"][0][1][:160]), case={"case": case}, key=key)
        else:
            why = "" if tid in acc else "  [TraceSync: run {} does not match the as-built model on {}]".format(rej[tid]["run"], rej[tid]["clauses"]) \
                if tid in rej else ""
            run.violation("{}: {}{}".format(label, "; ".join(m for _, m in res["fails"][:3]), why), {"case": case, "log": res["log"]}, key=key)
            k2 = (case["truth"], res["fails"][0][0], res["fails"][0][1][:70])
            tri[k2] = tri.get(k2, 0) + 1
        if len(run.samples) < 2 and tid.endswith("3"):
            run.sample({"truth": case["truth"], "init": case["init"], "model_final": case["final"], "fails": res["fails"][:2]})
    if os.environ.get("VERIF_TRIAGE"):
        for k, v in sorted(tri.items(), key=lambda kv: -kv[1])[:40]:
            print("TRIAGE", v, k)


def _validate_traces(run, traces, verdicts, work):
    """(V) every recorded behaviour of the real command is validated by TLC against Sync.tla's own action (TraceSync.tla)"""
    from harness import conv

    if not traces:
        return set(), {}
    import copy
    good = next((t for t in traces if verdicts.get(t["tid"]) == "held" and t["obs"] and not t["obs"][-1]["raised"]), None)
    if good is not None:
        bad = copy.deepcopy(good)
        bad["tid"] = "CORRUPT"
        k = next(k for k in ("cls", "fn", "ap") if k != bad["truth"])
        bad["obs"][-1][k]["eq"] = not bad["obs"][-1][k]["eq"]
        traces = traces + [bad]
    tf = os.path.join(work, "sync_traces.json")
    with open(tf, "w") as f:
        json.dump(traces, f)
    r = run.tlc("TraceSync", "MC_TraceSync.cfg", workers=NCPU, env={"TRACE_FILE": tf}, timeout=1800,
                constants={"MaxRuns": 3, "Enabled": conv.enabled_constant(run)})
    acc = {d["accept"] for d in r.printed if isinstance(d, dict) and "accept" in d}
    rej = {d["reject"]: d for d in r.printed if isinstance(d, dict) and "reject" in d}
    if good is not None and "CORRUPT" not in rej:
        raise MachineryError("binding demonstration failed: TraceSync accepted a trace whose last observation was corrupted")
    rej.pop("CORRUPT", None)
    ids = {t["tid"] for t in traces if t["tid"] != "CORRUPT"}
    undecided = ids - acc - set(rej)
    if undecided:
        raise MachineryError("TraceSync left {} traces without a verdict, e.g. {}".format(len(undecided), sorted(undecided)[:3]))
    # the two deciders must agree: a trace TLC rejects is a case the predicate-based verdict did not hold on, and vice versa
    py_not_held = {tid for tid, v in verdicts.items() if v != "held"}
    only_tlc = sorted(set(rej) - py_not_held)
    only_py = sorted(py_not_held - set(rej))
    run.extra["traces_validated_by_tlc"] = len(ids)
    run.extra["traces_rejected_by_tlc"] = len(rej)
    for tid in only_tlc[:5]:
        run.model_drift("TraceSync rejects {} at run {} ({}) but the predicate-based verdict held".format(tid, rej[tid]["run"], rej[tid]["clauses"]))
    run.extra["held_by_predicates_but_rejected_by_tlc"] = len(only_tlc)
    if os.environ.get("VERIF_TRIAGE"):
        import collections
        by = collections.Counter()
        tmap = {t["tid"]: t for t in traces}
        for tid, d in rej.items():
            t = tmap[tid]
            by[(t["truth"], d["run"], tuple(d["clauses"]), tuple("{}:{}".format(k, t["init"][k]["around"] if t["init"][k]["iface"] == "-" else "present") for k in ("cls", "fn", "ap")))] += 1
        for k, v in by.most_common(25):
            print("TRACE-REJECT", v, k)
    run.extra["rejected_by_predicates_but_accepted_by_tlc"] = len(only_py)
    return acc, rej
