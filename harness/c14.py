"""C14 -- every parser returns a well-formed interface description.

TLC: TraceIR.tla -- IROK (the documented shape, nine named clauses) evaluated on the shape record of EVERY interface
     description a real parser returned in this run; rejected records are printed with their failing clauses.
     The model-side counterpart (IROK of Parse_f over the abstract domain) is implied by the Norm operators of
     FormatRules/DocRules, whose results are interfaces by construction.
V:   drivers: (a) every emitted artefact of a TLC-enumerated sample of Formats/Docstring behaviours, re-parsed;
     (b) every mock of the repository through the parser the repository's own `infer` selects; (c) grammar-generated
     docstrings in three styles (sections in any order, usage/notes/raises sections, multi-line descriptions,
     *args/**kwargs entries); (d) generated functions with every argument kind; (f) generated SQLAlchemy models (class and
     Table form, every column keyword in every spelling, columns described or not), classes, argparse functions and
     JSON-schemas; (e) arbitrary text (TLC-enumerated
     token sequences + seeded random fragments) for the docstring parser whenever it returns.
"""

import ast
import contextlib
import importlib
import io
import json
import os
import random
import shutil
import tempfile

from harness import conv
from harness import gamma as G
from harness.common import NCPU, REPO, MachineryError, pmap

ALLOWED = {"typ", "doc", "default", "x_typ"}


def project(ir, rid, sig=None):
    """real IR -> shape record (see TraceIR.tla)"""
    def kind(x):
        return "str" if isinstance(x, str) else "none" if x is None else "other"

    if not isinstance(ir, dict):
        return {"id": rid, "name": "other", "doc": "other", "returns": "other", "dups": False, "sig": "na", "params": []}
    params = ir.get("params")
    recs = []
    names = []
    bad_typs = []
    missing_kinds = []
    if isinstance(params, dict):
        for n, e in params.items():
            names.append(n)
            if not isinstance(e, dict):
                recs.append({"nonempty": bool(n), "star": False, "keys": ["<not a dict>"], "typ": "absent", "doc": "absent"})
                continue
            t = e.get("typ", None) if "typ" in e else None
            if "typ" not in e or t is None:
                tk = "absent"
            elif not isinstance(t, str):
                tk = "nonstr"
            else:
                try:
                    ast.parse(t.strip() or "(", mode="eval")
                    tk = "parses"
                except (SyntaxError, ValueError, MemoryError, RecursionError):
                    tk = "unparsable"
            d = e.get("doc", None)
            if tk == "unparsable":
                bad_typs.append(t[:80])
            recs.append({"nonempty": isinstance(n, str) and len(n) > 0, "star": isinstance(n, str) and n.startswith("*"),
                         "keys": sorted(map(str, e.keys())), "typ": tk,
                         "doc": "absent" if "doc" not in e or d is None else "str" if isinstance(d, str) else "other"})
    rets = ir.get("returns")
    if rets is None:
        rk = "none"
    elif isinstance(rets, dict) and list(rets.keys()) == ["return_type"] and isinstance(rets["return_type"], dict):
        rk = "return_type"
    else:
        rk = "other"
    sk = "na"
    if sig is not None:
        kinds = dict(sig) if sig and isinstance(sig[0], (list, tuple)) else {s: "positional" for s in sig}
        sig = list(kinds)
        missing_kinds = sorted({kinds[s] for s in sig if s not in names})
        want = [s for s in sig]
        got = [n for n in names if n != "return_type"]
        if sorted(want) == sorted(got) and len(set(got)) == len(got):
            sk = "covered"
        elif set(want) - set(got):
            sk = "missing"
        else:
            sk = "extra"
    return {"id": rid, "name": kind(ir.get("name")), "doc": "missing" if "doc" not in ir else kind(ir.get("doc")),
            "returns": rk if isinstance(params, dict) else "other", "dups": len(set(names)) != len(names), "sig": sk,
            "params": recs, "bad_typs": bad_typs, "missing_kinds": missing_kinds}


# ------------------------------------------------------------------------------------------------------------
# drivers (each returns a list of (record id, input class, shape record) for the IRs the parsers returned)
# ------------------------------------------------------------------------------------------------------------


def _quiet(f, *a, **kw):
    with contextlib.redirect_stdout(io.StringIO()), contextlib.redirect_stderr(io.StringIO()):
        return f(*a, **kw)


def drive_conv(args):
    """(a) re-parse emitted artefacts of enumerated behaviours"""
    cases, seed, runner = args
    out = []
    g = G.Gamma(seed)
    from harness import real

    for k, case in enumerate(cases):
        salt = conv.salt_of(case, seed)
        ir = g.iface(case["i"], salt)
        try:
            if runner == "docstring":
                c = case["cfg"]
                _, back = _quiet(real.rt_docstring, ir, style=c["style"], edd=c["edd"], et=c["et"], parse_edd=False)
                label, sig = "docstring." + c["style"], None
            else:
                c = case["cfg"]
                f = c["fmt"]
                kw = dict(style=c["style"], edd=c["edd"]) if not f.startswith("sql") and f != "json_schema" else {}
                if f == "function":
                    kw.update(ann=c["ann"], kwonly=c["kwonly"])
                if f.startswith("sqlalchemy"):
                    kw = dict(style=c.get("style", "rest"), force_pk=c.get("force_pk", True))
                _, back = _quiet(real.ROUND[f], ir, **kw)
                label = f
                sig = list(ir["params"].keys()) if f == "function" else None
        except Exception:
            continue
        cls = "emitted:" + label + (":" + case["cfg"].get("style", "") if runner != "docstring" else "")
        out.append(("conv{}:{}".format(label, conv._short(case["i"])), cls, project(back, "", sig), json.dumps(case["cfg"])))
    return out


def drive_mocks(_):
    """(b) every mock of the repository through the parser `infer` selects"""
    out = []
    try:
        import cdd.shared.parse.utils.parser_utils as pu
        import cdd.argparse_function.parse
        import cdd.class_.parse
        import cdd.docstring.parse
        import cdd.function.parse
        import cdd.json_schema.parse
        import cdd.pydantic.parse
        import cdd.sqlalchemy.parse
    except Exception:
        return out
    parsers = {"argparse_ast": cdd.argparse_function.parse.argparse_ast, "class_": cdd.class_.parse.class_,
               "docstring": cdd.docstring.parse.docstring, "function": cdd.function.parse.function,
               "json_schema": cdd.json_schema.parse.json_schema, "pydantic": cdd.pydantic.parse.pydantic,
               "sqlalchemy": cdd.sqlalchemy.parse.sqlalchemy, "sqlalchemy_table": cdd.sqlalchemy.parse.sqlalchemy_table,
               "sqlalchemy_hybrid": cdd.sqlalchemy.parse.sqlalchemy_hybrid}
    mocks = os.path.join(REPO, "cdd", "tests", "mocks")
    for fn in sorted(os.listdir(mocks)):
        if not fn.endswith(".py") or fn.startswith("__") or fn in ("eval.py", "cst.py", "cstify.py"):
            continue
        try:
            mod = _quiet(importlib.import_module, "cdd.tests.mocks." + fn[:-3])
        except Exception:
            continue
        for name in sorted(dir(mod)):
            if name.startswith("_"):
                continue
            v = getattr(mod, name)
            nodes = []
            if isinstance(v, (ast.ClassDef, ast.FunctionDef, ast.Assign, ast.AnnAssign)):
                nodes = [v]
            elif isinstance(v, ast.Module):
                nodes = [n for n in v.body if isinstance(n, (ast.ClassDef, ast.FunctionDef))]
            elif isinstance(v, str) and fn == "docstrings.py" and len(v) < 5000:
                nodes = [v]
            elif isinstance(v, dict) and fn == "json_schema.py" and "properties" in v:
                nodes = [v]
            for k, node in enumerate(nodes):
                try:
                    if isinstance(node, str):
                        pname = "docstring"
                    elif isinstance(node, dict):
                        pname = "json_schema"
                    else:
                        pname = _quiet(pu.infer, node)
                    if pname not in parsers:
                        continue
                    import copy
                    back = _quiet(parsers[pname], copy.deepcopy(node))
                except Exception:
                    continue
                sig = None
                cls = "mock:" + pname
                if pname == "function" and isinstance(node, ast.FunctionDef):
                    a = node.args
                    sig = [(x.arg, "positional") for x in a.posonlyargs + a.args] + [(x.arg, "kwonly") for x in a.kwonlyargs] \
                        + ([(a.vararg.arg, "vararg")] if a.vararg else []) + ([(a.kwarg.arg, "kwarg")] if a.kwarg else [])
                    sig = [s for s in sig if s[0] not in ("self", "cls")]
                    if ast.get_docstring(node) is None:
                        cls += ":no_docstring"
                out.append(("mock:{}.{}[{}]".format(fn[:-3], name, k), cls, project(back, "", sig), pname))
    return out


WORDS = ["dataset", "learning rate", "number of steps", "whether to shuffle", "the path", "a list of names", "callable loss"]
TYPES = ["int", "str", "float", "bool", "Optional[int]", "List[str]", "Union[int, str]", "np.ndarray", "Literal['a', 'b']",
         "dict", "Callable[[int], str]", "Tuple[float, float]", "Dict[str, int]"]
NAMES = ["alpha", "beta", "n_steps", "*args", "**kwargs", "x1", "as_numpy", "K"]


def gen_docstring(rnd, style):
    names = rnd.sample(NAMES, rnd.randint(0, 4))
    params = [(n, rnd.choice(TYPES), rnd.choice(WORDS) + rnd.choice(["", ".", "\n    continued on a second line", ". Defaults to 5",
                                                                    ". Defaults to ```None```", ', defaults to "x"'])) for n in names]
    has_ret = rnd.random() < 0.6
    ret = (rnd.choice(TYPES), rnd.choice(WORDS))
    # the Google / NumPy convention for a parameter that may be left out: `name (type, optional)` / `name : type, optional`
    opt = lambda t: t + (", optional" if not t.startswith("Optional[") and rnd.random() < 0.35 else "")  # noqa: E731
    summary = rnd.choice(["Compute the thing.", "Compute the thing.\n\nA longer description\nover two lines.", ""])
    extra = rnd.choice(["", "Usage:\n    >>> f(1)\n    2", "Notes\n-----\nSome note.", "Raises:\n    ValueError: when bad",
                        ":raises ValueError: when bad", "Example::\n\n    f(1)"])
    sec = []
    if style == "rest":
        ps = "\n".join(":param {0}: {2}\n:type {0}: ```{1}```\n".format(n.lstrip("*"), t, d) if rnd.random() < 0.8
                       else ":param {0}: {1}\n".format(n, d) for n, t, d in params)
        rs = ":return: {1}\n:rtype: ```{0}```".format(*ret) if has_ret else ""
        sec = [ps, rs]
    elif style == "google":
        ps = ("Args:\n" + "\n".join("    {0} ({1}): {2}".format(n, opt(t), d) if rnd.random() < 0.8 else "    {0}: {1}".format(n, d)
                                    for n, t, d in params)) if params else ""
        rs = "Returns:\n    {0}: {1}".format(*ret) if has_ret else ""
        sec = [ps, rs]
    else:
        ps = ("Parameters\n----------\n" + "\n".join("{0} : {1}\n    {2}".format(n, opt(t), d) for n, t, d in params)) if params else ""
        rs = "Returns\n-------\n{0}\n    {1}".format(*ret) if has_ret else ""
        sec = [ps, rs]
    parts = [summary] + sec + [extra]
    if rnd.random() < 0.3:
        rnd.shuffle(parts)
    text = "\n\n".join(p for p in parts if p)
    ind = rnd.choice(["", "    ", "        "])
    return "\n".join((ind + ln) if ln.strip() else ln for ln in ("\n" + text + "\n").split("\n"))


def gen_function(rnd):
    pos = rnd.sample(["a", "b", "c", "d"], rnd.randint(0, 4))
    kwo = rnd.sample(["k1", "k2"], rnd.randint(0, 2))
    var = rnd.random() < 0.4
    kw = rnd.random() < 0.4
    ndef = rnd.randint(0, len(pos))
    args = []
    for k, n in enumerate(pos):
        ann = rnd.choice(["", ": int", ": Optional[str]", ": 'np.ndarray'"])
        d = rnd.choice([" = None", " = 5", " = 'x'", " = -1.5", " = (1, 2)"]) if k >= len(pos) - ndef else ""
        args.append(n + ann + d.replace(" = ", "=" if not ann else " = "))
    if var:
        args.append("*args")
    elif kwo:
        args.append("*")
    for n in kwo:
        args.append(n + rnd.choice(["", "=3", ": int = 3"]))
    if kw:
        args.append("**kwargs")
    meth = rnd.random() < 0.3
    if meth:
        args.insert(0, rnd.choice(["self", "cls"]))
    doc_names = rnd.sample(pos + kwo, rnd.randint(0, len(pos + kwo)))
    # a docstring also documents what is not a plain argument: the variadic catch-alls (under the spellings in use) and, now and then, a
    # name the signature no longer has -- the documented names are then NOT a subset of the signature's
    if var and rnd.random() < 0.5:
        doc_names.insert(rnd.randint(0, len(doc_names)), rnd.choice(["args", "*args"]))
    if kw and rnd.random() < 0.5:
        doc_names.append(rnd.choice(["kwargs", "**kwargs"]))
    if rnd.random() < 0.2:
        doc_names.insert(rnd.randint(0, len(doc_names)), "removed_option")
    style = rnd.choice(["rest", "google", "numpydoc", "none"])
    if style == "none":
        doc = ""
    else:
        lines = ["Do it."]
        if style == "rest":
            lines += [""] + [":param {0}: the {0}\n:type {0}: ```int```\n".format(n) for n in doc_names] + [":return: it", ":rtype: ```int```"]
        elif style == "google":
            lines += ["", "Args:"] + ["    {0} (int): the {0}".format(n) for n in doc_names] + ["", "Returns:", "    int: it"]
        else:
            lines += ["", "Parameters", "----------"] + ["{0} : int\n    the {0}".format(n) for n in doc_names] + ["", "Returns", "-------", "int", "    it"]
        doc = '    """\n' + "\n".join("    " + ln if ln else "" for ln in "\n".join(lines).split("\n")) + '\n    """\n'
    ret = rnd.choice(["", " -> int", " -> Optional[str]"])
    src = "def f({}){}:\n{}    return {}\n".format(", ".join(args), ret, doc, rnd.choice(["1", "None", "a" if "a" in pos else "0"]))
    sig = [(n, "positional") for n in pos] + [(n, "kwonly") for n in kwo] + ([("args", "vararg")] if var else []) \
        + ([("kwargs", "kwarg")] if kw else [])
    return src, sig, style


def drive_generated(args):
    seed, n = args
    rnd = random.Random(seed)
    out = []
    try:
        import cdd.docstring.parse
        import cdd.function.parse
    except Exception:
        return out
    for k in range(n):
        style = rnd.choice(["rest", "google", "numpydoc"])
        text = gen_docstring(rnd, style)
        try:
            back = _quiet(cdd.docstring.parse.docstring, text)
            out.append(("gen-doc:{}:{}".format(seed, k), "generated:docstring:" + style, project(back, ""), text))
        except Exception:
            pass
        src, sig, dstyle = gen_function(rnd)
        try:
            node = ast.parse(src).body[0]
        except SyntaxError:
            continue
        try:
            back = _quiet(cdd.function.parse.function, node)
            out.append(("gen-fn:{}:{}".format(seed, k), "generated:function:" + ("no_docstring" if dstyle == "none" else dstyle),
                        project(back, "", sig), src))
        except Exception:
            pass
    return out

# ---- (f) generated models: SQLAlchemy (class and Table form), classes, argparse functions, JSON-schemas ----------------------
SQL_TYPES = ["Integer", "String", "Float", "Boolean", "JSON", "String(64)", "Enum('a', 'b', name='kind')", "LargeBinary", "BigInteger"]
COLS = ["id", "name", "sensor_id", "value", "is_on", "payload", "created", "kind", "dataset_name"]
# the keywords the tool itself writes (primary_key, nullable, default, comment/doc, ForeignKey) in every spelling a model author uses,
# plus the commonest ones it does not write
def gen_column(rnd, name, pk, extra_kw):
    args = [rnd.choice(SQL_TYPES)]
    if rnd.random() < 0.2:
        args.append('ForeignKey("{}.id")'.format(rnd.choice(["sensor", "user_account"])))
    kw = []
    if pk:
        kw.append("primary_key=True")
    elif rnd.random() < 0.35:
        kw.append("primary_key=False")
    r = rnd.random()
    if r < 0.3:
        kw.append("nullable=True")
    elif r < 0.6:
        kw.append("nullable=False")
    if rnd.random() < 0.4:
        kw.append("default=" + rnd.choice(["5", "'x'", "None", "True", "0", "''", "1.5"]))
    r = rnd.random()
    if r < 0.3:
        kw.append("comment={!r}".format("the " + name))
    elif r < 0.5:
        kw.append("doc={!r}".format("the " + name + "."))
    elif r < 0.55:
        kw.append("comment=''")
    if extra_kw and rnd.random() < 0.3:
        kw.append(rnd.choice(["index=True", "unique=True", "autoincrement=True", "server_default='0'", "index=False", "unique=False"]))
    rnd.shuffle(kw)
    return args, kw


def gen_sqlalchemy(rnd):
    form = rnd.choice(["class", "table"])
    names = rnd.sample(COLS, rnd.randint(1, 5))
    pk = rnd.choice(names + [None])
    extra_kw = rnd.random() < 0.3
    described = rnd.sample(names, rnd.randint(0, len(names)))
    cols = [(n,) + gen_column(rnd, n, n == pk, extra_kw) for n in names]
    if form == "class":
        doc = ['    """', "    The {} table".format("sensor"), ""] + ["    :cvar {0}: the {0} column".format(n) for n in described] + ['    """']
        if rnd.random() < 0.15:
            doc = []
        body = ["class Sensor(Base):"] + doc + ['    __tablename__ = "sensor"', ""]
        body += ["    {} = Column({})".format(n, ", ".join(a + k)) for n, a, k in cols]
        if rnd.random() < 0.3:
            body += ["", "    def __repr__(self):", '        """repr"""', "        return 'Sensor()'"]
        src = "\n".join(body) + "\n"
    else:
        comment = ", comment={!r}".format("The sensor table\n\n" + "\n".join(":param {0}: the {0} column".format(n) for n in described)) \
            if rnd.random() < 0.8 else ""
        src = 'sensor = Table("sensor", metadata, {}{})\n'.format(
            ", ".join("Column({})".format(", ".join([repr(n)] + a + k)) for n, a, k in cols), comment)
    return src, form, extra_kw


def gen_class(rnd):
    names = rnd.sample(["alpha", "beta", "n_steps", "as_numpy", "K", "x1"], rnd.randint(0, 5))
    style = rnd.choice(["rest", "google", "numpydoc", "none"])
    described = rnd.sample(names, rnd.randint(0, len(names)))
    lines = ["Acquire the thing.", ""]
    if style == "rest":
        lines += [":cvar {0}: the {0}".format(n) for n in described]
    elif style == "google":
        lines += (["Attributes:"] + ["    {0} (int): the {0}".format(n) for n in described]) if described else []
    elif style == "numpydoc":
        lines += (["Attributes", "----------"] + ["{0} : int\n    the {0}".format(n) for n in described]) if described else []
    doc = "" if style == "none" else '    """\n' + "\n".join("    " + ln if ln else "" for ln in "\n".join(lines).split("\n")) + '\n    """\n'
    body = []
    for n in names:
        ann = rnd.choice([": int", ": Optional[str]", ": 'np.ndarray'", ": List[str]", ""])
        d = rnd.choice([" = None", " = 5", " = 'x'", " = -1.5", " = (1, 2)", " = []", ""])
        if not ann and not d:
            d = " = 0"
        body.append("    {}{}{}".format(n, ann, d))
    if rnd.random() < 0.3:
        body += ["", "    def __call__(self):", '        """call it"""', "        return self.alpha" if "alpha" in names else "        return 1"]
    if not doc and not body:
        body = ["    pass"]
    return "class Cfg(object):\n" + doc + "\n".join(body) + "\n", style


def gen_argparse(rnd):
    names = rnd.sample(["alpha", "beta", "n_steps", "as_numpy", "K", "x1"], rnd.randint(0, 5))
    lines = ["def set_cli_args(argument_parser):", '    """', "    Set CLI arguments", "",
             "    :param argument_parser: argument parser", "    :type argument_parser: ```ArgumentParser```", "",
             "    :return: argument_parser", "    :rtype: ```ArgumentParser```", '    """',
             '    argument_parser.description = {!r}'.format(rnd.choice(["Train it", "Train it.\n\nLong text", ""]))]
    for n in names:
        kw = []
        if rnd.random() < 0.7:
            kw.append("type=" + rnd.choice(["int", "str", "float", "loads", "bool"]))
        if rnd.random() < 0.6:
            kw.append("help={!r}".format(rnd.choice(["the " + n, "the " + n + ".", "", "number of {}".format(n)])))
        if rnd.random() < 0.4:
            kw.append("default=" + rnd.choice(["5", "'x'", "None", "True", "0", "''", "-1.5", "[]"]))
        if rnd.random() < 0.3:
            kw.append("required=" + rnd.choice(["True", "False"]))
        if rnd.random() < 0.15:
            kw.append("choices=('a', 'b')")
        if rnd.random() < 0.15:
            kw.append('action="append"' if rnd.random() < 0.5 else 'action="store_true"')
            kw = [k for k in kw if not k.startswith(("type=", "choices="))] if "store_true" in kw[-1] else kw
        if rnd.random() < 0.1:
            kw.append("nargs=" + rnd.choice(["'*'", "'+'", "2"]))
        lines.append("    argument_parser.add_argument({})".format(", ".join(['"--{}"'.format(n)] + kw)))
    lines.append("    return argument_parser" + rnd.choice(["", ", Cfg"]))
    return "\n".join(lines) + "\n"


def gen_json_schema(rnd):
    names = rnd.sample(["alpha", "beta", "n_steps", "as_numpy", "K", "x1"], rnd.randint(0, 5))
    props = {}
    for n in names:
        e = {}
        r = rnd.random()
        if r < 0.8:
            e["type"] = rnd.choice(["integer", "string", "number", "boolean", "object", "array", "null"])
        elif r < 0.9:
            e["anyOf"] = [{"type": "string"}, {"type": "integer"}]
        if rnd.random() < 0.6:
            e["description"] = rnd.choice(["the " + n, "", "the " + n + "."])
        if rnd.random() < 0.4:
            e["default"] = rnd.choice([5, "x", None, True, 0, "", -1.5, [], {}])
        if e.get("type") == "string" and rnd.random() < 0.3:
            e.update(rnd.choice([{"pattern": "^(a|b)$"}, {"enum": ["a", "b"]}, {"format": "date-time"}, {"pattern": "^a|b$"}]))
        if e.get("type") == "array" and rnd.random() < 0.6:
            e["items"] = {"type": "string"}
        props[n] = e
    doc = {"$id": "https://example.com/cfg.schema.json", "$schema": "https://json-schema.org/draft/2020-12/schema",
           "type": "object", "properties": props}
    if rnd.random() < 0.8:
        doc["description"] = rnd.choice(["The cfg", "The cfg.\n\nLonger text"])
    if rnd.random() < 0.7:
        doc["required"] = rnd.sample(names, rnd.randint(0, len(names)))
    if rnd.random() < 0.2:
        del doc["$id"]
    return doc


def drive_models(args):
    seed, n = args
    rnd = random.Random(seed)
    out = []
    try:
        import copy

        import cdd.argparse_function.parse
        import cdd.class_.parse
        import cdd.json_schema.parse
        import cdd.sqlalchemy.parse
    except Exception:
        return out
    for k in range(n):
        src, form, extra_kw = gen_sqlalchemy(rnd)
        try:
            node = ast.parse(src).body[0]
            back = _quiet(cdd.sqlalchemy.parse.sqlalchemy if form == "class" else cdd.sqlalchemy.parse.sqlalchemy_table, node)
            out.append(("gen-sql:{}:{}".format(seed, k), "generated:sqlalchemy_{}{}".format(form, ":other_keywords" if extra_kw else ""),
                        project(back, ""), src))
        except Exception:
            pass
        src, style = gen_class(rnd)
        try:
            back = _quiet(cdd.class_.parse.class_, ast.parse(src).body[0])
            out.append(("gen-class:{}:{}".format(seed, k), "generated:class:" + ("no_docstring" if style == "none" else style),
                        project(back, ""), src))
        except Exception:
            pass
        src = gen_argparse(rnd)
        try:
            back = _quiet(cdd.argparse_function.parse.argparse_ast, ast.parse(src).body[0])
            out.append(("gen-argparse:{}:{}".format(seed, k), "generated:argparse", project(back, ""), src))
        except Exception:
            pass
        doc = gen_json_schema(rnd)
        try:
            back = _quiet(cdd.json_schema.parse.json_schema, copy.deepcopy(doc))
            out.append(("gen-json:{}:{}".format(seed, k), "generated:json_schema", project(back, ""), json.dumps(doc)))
        except Exception:
            pass
    return out


def drive_text(texts):
    out = []
    try:
        import cdd.docstring.parse
    except Exception:
        return out
    for k, t in texts:
        try:
            back = _quiet(cdd.docstring.parse.docstring, t)
        except Exception:
            continue
        out.append(("text:{}".format(k), "arbitrary_text", project(back, ""), t))
    return out


def input_class(cls, rec, clauses, inp):
    """-> the finding id under which a rejected record is listed, or None"""
    c = set(clauses)
    if c == {"DocOK"} and rec["doc"] == "missing" and cls.endswith("no_docstring"):
        return "function_without_docstring_has_no_doc"
    if c <= {"ParamTypOK", "ParamNamesOK", "DocOK", "ParamDocOK", "ParamKeysOK"} and cls == "arbitrary_text":
        return "arbitrary_text_ill_shaped"
    return None


def check(run, replay=None):
    work = tempfile.mkdtemp(prefix="verif-c14-")
    try:
        _check(run, replay, work)
    finally:
        shutil.rmtree(work, ignore_errors=True)


FINDERS = []


def _check(run, replay, work):
    from harness import c11

    quick = run.tier == "quick"
    run.rule = ("record = shape projection of one interface description returned by a real parser; sources: re-parsed emissions "
                "of TLC-enumerated behaviours (all formats), repository mocks, grammar-generated docstrings/functions, arbitrary "
                "text; distinct = distinct (driver id); every record is checked by TLC against IROK")
    run.assumptions += ["`typ parses` is computed with ast.parse(typ, mode='eval') in the harness"]
    rnd = random.Random(run.seed)
    recs = []
    # (a) enumerated behaviours
    fcases = conv.dump_cases(run, "Formats", "MC_Formats_dump.cfg", {"MaxParams": 1, "Reduced": "TRUE", "Fmts": '{"class", "pydantic", "function", "argparse"}'},
                             require_devs=False, enabled="{}")
    dcases = conv.dump_cases(run, "Docstring", "MC_Docstring_dump.cfg", {"MaxParams": 1, "Reduced": "TRUE"}, require_devs=False, enabled="{}")
    if quick:
        fcases = rnd.sample(fcases, min(2500, len(fcases)))
        dcases = rnd.sample(dcases, min(1500, len(dcases)))
    jobs = [(fcases[k:k + 100], run.seed, "format") for k in range(0, len(fcases), 100)]
    jobs += [(dcases[k:k + 100], run.seed, "docstring") for k in range(0, len(dcases), 100)]
    for part in pmap(drive_conv, jobs, chunksize=1):
        recs += part
    # (b) mocks
    recs += drive_mocks(None)
    # (c, d) generated
    n = 150 if quick else 2000
    for part in pmap(drive_generated, [(run.seed * 100 + k, n) for k in range(NCPU)], chunksize=1):
        recs += part
    # (f) generated SQLAlchemy models / classes / argparse functions / JSON-schemas
    for part in pmap(drive_models, [(run.seed * 1000 + k, n) for k in range(NCPU)], chunksize=1):
        recs += part
    # (e) arbitrary text: TLC-enumerated token sequences (Loops.tla) + random fragments
    r = run.tlc("Loops", "MC_Loops_tokens.cfg", shards=NCPU, constants={"MaxTok": 2 if quick else 3}, timeout=3000)
    texts = [(k, c11.concretise(d["toks"], ind)) for k, d in enumerate(r.printed) for ind in ((0,) if quick else (0, 1))]
    frag = list(c11.GAMMA.values()) + c11.EXTRA
    for k in range(300 if quick else 6000):
        texts.append(("r%d" % k, "".join(rnd.choice(frag) for _ in range(rnd.randint(3, 10)))))
    for part in pmap(drive_text, [texts[k:k + 400] for k in range(0, len(texts), 400)], chunksize=1):
        recs += part
    if not recs:
        run.violation("no parser could be driven at all (import failure?)", {"kind": "import"})
        return
    # ---------------- TLC evaluates IROK on every record ----------------
    shapes = []
    for k, (rid, cls, rec, inp) in enumerate(recs):
        rec = dict(rec)
        rec["id"] = str(k)
        shapes.append(rec)
    bad = dict(shapes[0])
    bad = json.loads(json.dumps(bad))
    bad["id"] = "CORRUPT"
    bad["returns"] = "other"
    shapes.append(bad)
    tf = os.path.join(work, "irs.json")
    with open(tf, "w") as f:
        json.dump(shapes, f)
    r = run.tlc("TraceIR", "MC_TraceIR.cfg", workers=NCPU, env={"TRACE_FILE": tf}, timeout=3000)
    rejected = {}
    for d in r.printed:
        if isinstance(d, dict) and "reject" in d:
            rejected[d["reject"]] = d["clauses"]
    if "CORRUPT" not in rejected:
        raise MachineryError("binding demonstration failed: TraceIR accepted a record with a malformed return entry")
    del rejected["CORRUPT"]
    for k, (rid, cls, rec, inp) in enumerate(recs):
        run.replayed += 1
        key = rid
        if str(k) in rejected:
            clauses = rejected[str(k)]
            fids = finding_for(cls, rec, clauses, inp)
            what = "{} [{}]: the returned interface violates {}: {}".format(rid, cls, clauses, _brief(rec))
            if fids:
                for fid in fids:
                    run.trigger(fid)
                    run.finding(fid, what, case={"id": rid, "class": cls, "input": inp}, key=key)
            else:
                run.violation(what, {"id": rid, "class": cls, "input": inp, "shape": rec}, key=key)
                if os.environ.get("VERIF_TRIAGE"):
                    TRIAGE.setdefault((cls, tuple(clauses), tuple(rec.get("missing_kinds", []))), []).append((rid, str(inp)[:300], _brief(rec)))
        else:
            run.held(key)
    for k, v in sorted(TRIAGE.items(), key=lambda kv: -len(kv[1])):
        print("TRIAGE", len(v), k)
        for x in v[:int(os.environ.get("VERIF_TRIAGE") or 1)]:
            print("      ", x)
    run.extra["records"] = len(recs)
    run.extra["records_by_class"] = {}
    for rid, cls, rec, inp in recs:
        c0 = cls.split(":")[0] + ":" + (cls.split(":")[1] if ":" in cls else "")
        run.extra["records_by_class"][c0] = run.extra["records_by_class"].get(c0, 0) + 1
    run.sample({"id": recs[0][0], "class": recs[0][1], "shape": recs[0][2]})
    run.sample({"id": recs[-1][0], "class": recs[-1][1], "shape": recs[-1][2]})


def _brief(rec):
    return json.dumps({k: v for k, v in rec.items() if k not in ("id", "params")})[:300]


def finding_for(cls, rec, clauses, inp):
    """-> list of finding ids that together explain every failing clause, or [] (then it is a violation)"""
    todo = set(clauses)
    fids = []
    for fid, clause, pred in FINDINGS:
        if clause in todo and pred(cls, rec, inp):
            todo.discard(clause)
            fids.append(fid)
    return fids if not todo else []


def _only_swallowed(rec):
    return bool(rec.get("bad_typs")) and all(t.strip() == "" or "\n" in t for t in rec["bad_typs"])


SQL_OTHER = ("index", "unique", "autoincrement", "server_default")
JSON_OTHER = ("items", "enum", "format")
FINDINGS = [
    ("function_without_docstring_has_no_doc", "DocOK",
     lambda cls, rec, inp: cls.endswith("no_docstring") and rec["doc"] == "missing"),
    ("function_star_args_dropped", "SigCovered",
     lambda cls, rec, inp: rec["sig"] == "missing" and set(rec.get("missing_kinds", [])) <= {"vararg", "kwarg"}
     and ":function" in cls),
    ("rest_type_line_swallows_following_text", "ParamTypOK",
     lambda cls, rec, inp: cls in ("generated:docstring:rest", "arbitrary_text") and _only_swallowed(rec)),
    ("arbitrary_text_type_not_expression", "ParamTypOK",
     lambda cls, rec, inp: cls == "arbitrary_text" and all(p["typ"] != "nonstr" for p in rec["params"])),
    ("numpydoc_double_colon_line_as_param", "ParamTypOK",
     lambda cls, rec, inp: cls in ("generated:docstring:numpydoc", "arbitrary_text") and rec.get("bad_typs") == [":"]
     and "::" in str(inp)),
    ("arbitrary_text_empty_param_name", "ParamNamesOK",
     lambda cls, rec, inp: cls == "arbitrary_text" and not any(p["star"] for p in rec["params"])),
    ("sqlalchemy_table_server_default_key", "ParamKeysOK",
     lambda cls, rec, inp: cls == "mock:sqlalchemy_table"
     and all(set(p["keys"]) <= ALLOWED | {"server_default"} for p in rec["params"])),
    ("sqlalchemy_untranslated_column_keyword_copied", "ParamKeysOK",
     lambda cls, rec, inp: cls in ("generated:sqlalchemy_class:other_keywords", "generated:sqlalchemy_table:other_keywords")
     and all(set(p["keys"]) <= ALLOWED | {k for k in SQL_OTHER if k + "=" in str(inp)} for p in rec["params"])),
    ("json_schema_untranslated_keyword_copied", "ParamKeysOK",
     lambda cls, rec, inp: cls == "generated:json_schema"
     and all(set(p["keys"]) <= ALLOWED | {k for k in JSON_OTHER if '"{}":'.format(k) in str(inp)} for p in rec["params"])),
]
TRIAGE = {}
