"""C01 -- docstring <-> interface round-trip in ReST, Google and NumPy styles.

TLC: Docstring.tla -- RoundTrip on the ideal rules (Enabled = {}), RoundTripOrDeviation on the as-built rules with
     exactly the open findings of known_findings.txt enabled; every enabled deviation must be reachable.
R:   every dumped behaviour (cfg, interface) is concretised and driven through the real emitter and parser; the
     verdict is `real re-parsed IR == gamma(Norm(cfg, i))`.
"""

import random

from harness import conv
from harness import gamma as G
from harness.common import NCPU, MachineryError


dump_cases = conv.dump_cases


def check(run, replay=None):
    G.OPENERS[0] = G.DOC_OPENERS      # (inherited by the forked replay workers)
    run.rule = ("case = (style, emit_default_doc, emit_types) x interface of 0..2 parameters (15 type shapes x compatible "
                "defaults x 2 description kinds) + optional return, enumerated by TLC; distinct = distinct (cfg, interface); "
                "non-trivial = at least one parameter")
    run.assumptions += ["entries without a description are outside the modelled domain (see DESIGN.md, C01)",
                        "descriptions are two classes of prose ('the x', 'the x.'), identifiers and values come from seeded pools"]
    if replay:
        conv.replay_one(run, replay)
        return
    quick = run.tier == "quick"
    run.tlc("Docstring", "MC_Docstring_ideal.cfg", constants={"MaxParams": 2, "Reduced": "TRUE"}, workers=NCPU, timeout=3000)
    cases1 = dump_cases(run, "Docstring", "MC_Docstring_dump.cfg", {"MaxParams": 1, "Reduced": "TRUE"})
    cases2 = dump_cases(run, "Docstring", "MC_Docstring_dump.cfg",
                        {"MaxParams": 2, "Reduced": "TRUE" if quick else "FALSE"}, require_devs=False)
    cases2 = [c for c in cases2 if len(c["i"]["params"]) == 2]
    if quick:
        cases2 = random.Random(run.seed).sample(cases2, min(4000, len(cases2)))
    else:
        run.exhaustive = True
    conv.replay(run, cases1 + cases2, "docstring", label="docstring round-trip")
