"""C17 -- analysing source never executes it or touches anything but the output.

TLC: Effects.tla -- the effect monitor composed with an adversary (slot x payload x API): `bad` is unreachable under the
     as-designed data flow.
V:   for every (API, slot, payload) TLC enumerates, the harness builds the adversarial module / docstring (payloads would
     create a sentinel file or import a sentinel module), runs the REAL API under sys.addaudithook, and TLC validates the
     recorded event trace against the monitor (TraceEffects.tla).  Sentinel files / modules are checked as an
     independent second oracle.
"""

import ast
import contextlib
import io
import json
import os
import shutil
import sys
import tempfile

from harness.common import NCPU, MachineryError, pmap

PAYLOAD = {
    "benign": {"expr": "5", "typ": "int", "desc": "the a", "stmt": "SOMETHING = 1"},
    "call_expr": {"expr": "open({S!r}, 'w')", "typ": "open({S!r}, 'w')",
                  "desc": "whether to open({S!r}, 'w'); one of `open({S!r},'w')` or `b`; list of open({S!r},'w')",
                  "stmt": "open({S!r}, 'w').close()"},
    "dunder_chain": {"expr": "().__class__.__bases__[0].__subclasses__()", "typ": "().__class__.__bases__",
                     "desc": "list of __import__.__class__.__name__ or `__builtins__`; number of __builtins__.__dict__ items",
                     "stmt": "X = ().__class__.__bases__[0].__subclasses__()"},
    "import_stmt": {"expr": "__import__('verif_sentinel_mod')", "typ": "__import__('verif_sentinel_mod')",
                    "desc": "whether __import__('verif_sentinel_mod'); one of `__import__('verif_sentinel_mod')` or `x`",
                    "stmt": "import verif_sentinel_mod"},
}


YAML_PAYLOAD = {
    "benign": "description: A `Config` object.",
    "pickled": "description: !!python/object/apply:pickle.loads [!!binary gAJjYnVpbHRpbnMKb3BlbgpxAC4=]",
    "call_expr": "description: !!python/object/apply:builtins.open [{S}, w]",
    "dunder_chain": "description: !!python/name:os.system",
    "import_stmt": "description: !!python/module:verif_sentinel_mod",
}


def build_routes(slot, payload, sentinel):
    _ensure_pickled(sentinel)
    y = YAML_PAYLOAD[payload if slot == "yaml_block" else "benign"].replace("{S}", sentinel)
    p = {k: v.replace("{S!r}", repr(sentinel)) for k, v in PAYLOAD[payload].items()}
    desc = p["desc"] if slot == "description" else "The primary key"
    expr = p["expr"] if slot == "default" else "5"
    stmt = p["stmt"] if slot == "module_stmt" else "SOMETHING = 1"
    typ = p["typ"] if slot == "type" else "str"
    return '''from bottle import Bottle, request, response

rest_api = Bottle(catchall=False, autojson=True)
{stmt}


@rest_api.get('/api/config/:alpha')
def read(alpha: {typ} = {expr}):
    """
    Find one `Config` or error

    ```yml
    responses:
      '200':
        {y}
        content:
          application/json:
            schema:
              $ref: ```Config```
      '404':
        description: A `ServerError` object.
        content:
          application/json:
            schema:
              $ref: ```ServerError```
    ```

    :param alpha: {desc}
    :type alpha: ```str```

    :return: Found `Config` (as a dict) or error dict
    :rtype: ```dict```
    """
    return {{}}
'''.format(stmt=stmt, typ=typ, expr=expr, y=y, desc=desc)


MODEL_SRC = '''from sqlalchemy import Column, Integer, String

Base = object


class Config(Base):
    """
    The config

    :cvar alpha: the alpha"""

    __tablename__ = "config_tbl"

    alpha = Column(Integer, comment="[PK] the alpha", primary_key=True)
'''


def _ensure_pickled(sentinel):
    """payload "pickled": a SERIALISED object -- the bytes literal of a pickle whose loading has a side effect, next to `pickle.loads` as the
    type: the shape the argparse emitter itself writes for defaults it cannot spell (`type=pickle.loads, default=b'...'`)"""
    import pickle
    blob = repr(pickle.dumps(_Opener(sentinel), protocol=2))
    PAYLOAD["pickled"] = {"expr": blob, "typ": "pickle.loads", "desc": "whether to pickle.loads({}); one of `pickle.loads` or `b`".format(blob),
                          "stmt": "DATA = {}".format(blob)}


class _Opener(object):
    """an object whose pickle, when loaded, creates the sentinel file"""

    def __init__(self, path):
        self.path = path

    def __reduce__(self):
        return open, (self.path, "w")


def build_module(slot, payload, sentinel):
    _ensure_pickled(sentinel)
    p = {k: v.replace("{S!r}", repr(sentinel)) for k, v in PAYLOAD[payload].items()}
    b = PAYLOAD["benign"]
    expr = p["expr"] if slot == "default" else b["expr"]
    typ = p["typ"] if slot == "type" else b["typ"]
    desc = p["desc"] if slot == "description" else b["desc"]
    stmt = p["stmt"] if slot == "module_stmt" else b["stmt"]
    # the docstring must not contain a triple quote
    return '''"""Module docstring"""
from argparse import ArgumentParser
{stmt}


def target_fn(a: {typ} = {expr}, b=2):
    """
    Do the thing

    :param a: {desc}
    :type a: ```{typ}```

    :param b: the b. Defaults to ```{expr}```
    :type b: ```int```

    :return: it
    :rtype: ```{typ}```
    """
    return a


class TargetCls(object):
    """
    Hold the things

    :cvar a: {desc}
    :cvar b: the b"""

    a: {typ} = {expr}
    b: int = 2

    def method(self, a: {typ} = {expr}):
        """
        :param a: {desc}
        :type a: ```{typ}```
        """
        return a


def set_cli_args(argument_parser):
    """
    Set CLI arguments

    :param argument_parser: argument parser
    :type argument_parser: ```ArgumentParser```

    :return: argument_parser
    :rtype: ```ArgumentParser```
    """
    argument_parser.description = "Hold the things"
    argument_parser.add_argument("--a", type={ap_typ}, help={desc!r}, default={expr})
    argument_parser.add_argument("--b", type=int, help="the b", default=2)
    return argument_parser
'''.format(stmt=stmt, typ=typ, expr=expr, desc=desc, ap_typ="pickle.loads" if payload == "pickled" and slot == "default" else typ), desc, typ


WIDGET = '''"""Models (module-level code below must never run during analysis)"""
open({S!r}, "w").close()
Base = object
Column = Integer = String = lambda *a, **kw: None


class Widget(Base):
    """A widget"""

    __tablename__ = "widget"

    widget_id = Column(Integer, primary_key=True)
    name = Column(String)
'''
NODE = '''from sqlalchemy import Column, ForeignKey, Integer
from {mod} import Widget


class Node(Base):
    """A node"""

    __tablename__ = "node"

    node_id = Column(Integer, primary_key=True)
    primary_widget = Column(Widget, ForeignKey("Widget"))
'''


def run_phase2(case, work, sentinel):
    """gen --emit sqlalchemy --phase 2 over a models file whose foreign key names a class imported from another module of the project"""
    from harness import effects
    import cdd.__main__ as cli

    payload = case["payload"]
    project = os.path.join(work, "project")
    os.makedirs(project)
    mod = "verif_sentinel_models_{}".format(os.path.basename(work).replace("-", "_"))
    if payload == "benign":                      # a plain module file
        with open(os.path.join(project, mod + ".py"), "w") as f:
            f.write(WIDGET.replace("{S!r}", repr(sentinel + "_mod")))
    else:                                        # a package: its __init__ holds the side effect (and, per payload, where the class lives)
        os.makedirs(os.path.join(project, mod))
        with open(os.path.join(project, mod, "__init__.py"), "w") as f:
            f.write(WIDGET.replace("{S!r}", repr(sentinel + "_mod")) if payload != "import_stmt"
                    else "open({!r}, 'w').close()\nfrom .widget import Widget\n".format(sentinel + "_mod"))
        if payload == "import_stmt":
            with open(os.path.join(project, mod, "widget.py"), "w") as f:
                f.write(WIDGET.replace("{S!r}", repr(sentinel + "_mod2")))
    node_py = os.path.join(project, "node.py")
    with open(node_py, "w") as f:
        f.write(NODE.format(mod=mod))
    rec = effects.Recorder(outputs=[node_py], inputs=[node_py], sentinels=[mod, mod + ".widget"], analysed_modules=["node"])
    sys.path.insert(0, project)
    errors = []
    try:
        with effects.recording(rec):
            try:
                with contextlib.redirect_stdout(io.StringIO()), contextlib.redirect_stderr(io.StringIO()):
                    cli.main(["gen", "--name-tpl", "{name}", "--input-mapping", node_py, "--parse", "sqlalchemy", "--emit", "sqlalchemy",
                              "-o", node_py, "--phase", "2"])
            except SystemExit:
                pass
            except Exception as e:  # noqa
                errors.append(type(e).__name__)
    finally:
        sys.path.remove(project)
        for m in list(sys.modules):
            if m == mod or m.startswith(mod + ".") or m == "node":
                sys.modules.pop(m, None)
    sentinels = sorted(f for f in os.listdir(work) if f.startswith("SENTINEL"))
    res = {"case": case, "events": rec.events, "detail": rec.detail, "sentinels": sentinels, "errors": errors}
    shutil.rmtree(work, ignore_errors=True)
    return res


def run_case(args):
    case, workroot = args
    api, slot, payload = case["api"], case["slot"], case["payload"]
    from harness import effects

    work = tempfile.mkdtemp(prefix="c17-", dir=workroot)
    sentinel = os.path.join(work, "SENTINEL_FILE")
    moddir = os.path.join(work, "sentinel_pkg")
    os.makedirs(moddir)
    with open(os.path.join(moddir, "verif_sentinel_mod.py"), "w") as f:
        f.write("open({!r}, 'w').close()\n".format(sentinel + "_mod"))
    if (api == "gen_phase2") != (slot == "import_from"):
        return {"case": case, "skip": "the import_from slot exists only in the second SQLAlchemy phase of gen (and that phase reads nothing else)"}
    if api == "gen_phase2":
        return run_phase2(case, work, sentinel)
    if api in ("route_parse", "openapi_bulk"):
        src, desc, typ = build_routes(slot, payload, sentinel), "", ""
    elif slot == "yaml_block":
        return {"case": case, "skip": "the yaml slot exists only in route docstrings"}
    else:
        src, desc, typ = build_module(slot, payload, sentinel)
    try:
        tree = ast.parse(src)
    except SyntaxError as e:
        return {"case": case, "skip": "adversarial module is not valid Python: {}".format(e)}
    inp = os.path.join(work, "analysed_mod.py")
    with open(inp, "w") as f:
        f.write(src)
    out_file = os.path.join(work, "out.py")
    outputs = []
    calls = []
    import copy
    if api in ("route_parse", "openapi_bulk"):
        fn = next(n for n in tree.body if isinstance(n, ast.FunctionDef) and n.name == "read")
        cls = argp = None
    else:
        fn = next(n for n in tree.body if isinstance(n, ast.FunctionDef) and n.name == "target_fn")
        cls = next(n for n in tree.body if isinstance(n, ast.ClassDef))
        argp = next(n for n in tree.body if isinstance(n, ast.FunctionDef) and n.name == "set_cli_args")
    import cdd.__main__ as cli

    if api == "parse":
        import cdd.argparse_function.parse
        import cdd.class_.parse
        import cdd.docstring.parse
        import cdd.function.parse

        calls = [lambda: cdd.function.parse.function(copy.deepcopy(fn)),
                 lambda: cdd.class_.parse.class_(copy.deepcopy(cls)),
                 lambda: cdd.argparse_function.parse.argparse_ast(copy.deepcopy(argp)),
                 lambda: cdd.docstring.parse.docstring(ast.get_docstring(fn)),
                 lambda: cdd.docstring.parse.docstring(ast.get_docstring(fn), infer_type=True),
                 lambda: cdd.class_.parse.class_(copy.deepcopy(cls), merge_inner_function="method")]
    elif api == "route_parse":
        import cdd.routes.parse.bottle as rb

        calls = [lambda: rb.bottle(copy.deepcopy(fn))]
    elif api == "openapi_bulk":
        from cdd.compound.openapi.gen_openapi import openapi_bulk

        mp = os.path.join(work, "models_mod.py")
        with open(mp, "w") as f:
            f.write(MODEL_SRC)
        calls = [lambda: openapi_bulk(app_name="rest_api", model_paths=[mp], routes_paths=[inp])]
    elif api == "emit":
        import cdd.function.parse
        from harness import real

        def emit_all():
            try:
                ir = cdd.function.parse.function(copy.deepcopy(fn))
            except Exception:
                ir = {"name": "f", "doc": desc, "params": {"a": {"typ": typ, "doc": desc, "default": "```{}```".format(PAYLOAD[payload]["expr"])}},
                      "returns": None}
            for f_ in ("class", "pydantic", "function", "argparse", "json_schema", "sqlalchemy", "sqlalchemy_table", "docstring"):
                try:
                    real.ROUND[f_](copy.deepcopy(ir))
                except Exception:
                    pass
        calls = [emit_all]
    elif api == "doctrans":
        outputs = [inp]
        calls = [lambda fmt=fmt, ann=ann: cli.main(["doctrans", "--filename", inp, "--format", fmt,
                                                    "--type-annotations" if ann else "--no-type-annotations"])
                 for fmt in ("google", "rest") for ann in (True, False)]
    elif api == "sync":
        tgt = os.path.join(work, "target_cls.py")
        with open(tgt, "w") as f:
            f.write('class TargetCls(object):\n    """\n    Other\n\n    :cvar z: the z"""\n\n    z: int = 1\n')
        outputs = [tgt, inp]
        calls = [lambda: cli.main(["sync", "--truth", "function", "--function", inp, "--function-name", "target_fn",
                                   "--class", tgt, "--class-name", "TargetCls"]),
                 lambda: cli.main(["sync", "--truth", "class", "--class", inp, "--class-name", "TargetCls",
                                   "--function", tgt, "--function-name", "TargetCls"])]
    elif api in ("sync_properties", "sync_properties_eval"):
        tgt = os.path.join(work, "target_fn.py")
        with open(tgt, "w") as f:
            f.write("def consumer(x: int = 1, y=2):\n    return x\n")
        outputs = [tgt]
        argv = ["sync_properties", "--input-filename", inp, "--input-param", "target_fn.a" if api == "sync_properties" else "SOMETHING",
                "--output-filename", tgt, "--output-param", "consumer.x"]
        if api == "sync_properties_eval":
            argv.insert(1, "--input-eval")
        calls = [lambda: cli.main(argv)]
    elif api in ("gen_file", "gen_prepend"):
        outputs = [out_file]
        argv = ["gen", "--name-tpl", "{name}Config", "--input-mapping", inp, "--parse", "function", "--emit", "class",
                "--output-filename", out_file]
        if api == "gen_prepend":
            argv += ["--prepend", "PREPENDED = 1\n"]
        calls = [lambda: cli.main(argv)]
    elif api == "gen_imports_file":
        # the analysed module doubles as the file whose imports are to be copied; both are named by their BARE file names from inside
        # the project directory, which is on sys.path (what `python -m cdd gen ...` run there looks like)
        outputs = [out_file]
        argv = ["gen", "--name-tpl", "{name}Config", "--input-mapping", "analysed_mod.py", "--parse", "function", "--emit", "class",
                "--output-filename", "out.py", "--imports-from-file", "analysed_mod.py"]

        def in_project_dir():
            old = os.getcwd()
            os.chdir(work)
            try:
                cli.main(argv)
            finally:
                os.chdir(old)
        calls = [in_project_dir]
    else:
        return {"case": case, "skip": "api handled by C20"}

    rec = effects.Recorder(outputs=outputs, inputs=[inp], sentinels=["verif_sentinel_mod"], analysed_modules=["analysed_mod"])
    sys.path.insert(0, moddir)
    sys.path.insert(0, work)
    errors = []
    try:
        with effects.recording(rec):
            for c in calls:
                try:
                    with contextlib.redirect_stdout(io.StringIO()), contextlib.redirect_stderr(io.StringIO()):
                        c()
                except SystemExit:
                    pass
                except Exception as e:  # noqa
                    errors.append(type(e).__name__)
    finally:
        sys.path.remove(moddir)
        sys.path.remove(work)
        for m in ("verif_sentinel_mod", "analysed_mod"):
            sys.modules.pop(m, None)
    sentinels = sorted(f for f in os.listdir(work) if f.startswith("SENTINEL"))
    res = {"case": case, "events": rec.events, "detail": rec.detail, "sentinels": sentinels, "errors": errors}
    shutil.rmtree(work, ignore_errors=True)
    return res


def _batch(items):
    return [run_case(a) for a in items]


def check(run, replay=None):
    work = tempfile.mkdtemp(prefix="verif-c17-")
    try:
        _check(run, replay, work)
    finally:
        shutil.rmtree(work, ignore_errors=True)


def _check(run, replay, work):
    run.rule = ("trace = the audit events of one real API call on an adversarial module built from (API, slot, payload); slots: "
                "default / type / description / module-level statement; payloads: benign, call expression, dunder attribute chain, "
                "import; distinct = distinct (API, slot, payload); non-trivial = hostile payload")
    run.assumptions += ["effects that raise no CPython audit event (C extensions) are out of reach; none are used by the package",
                        "the docstring type probe (eval of a whitelisted, call-free type string) counts as treating input as data, "
                        "as the property's author reads it"]
    r = run.tlc("Effects", "MC_Effects.cfg", workers=4, timeout=600)
    r = run.tlc("Effects", "MC_Effects_dump.cfg", workers=1, timeout=600)
    cases = [c for c in r.printed if c["api"] not in ("exmod", "exmod_dry")]
    if replay:
        with open(replay) as f:
            want = json.load(f)["case"]
        cases = [c for c in cases if c == want]
    if not cases:
        raise MachineryError("Effects dump produced no cases")
    items = [(c, work) for c in cases]
    results = []
    for rb in pmap(_batch, [items[k:k + 4] for k in range(0, len(items), 4)], chunksize=1):
        results += rb
    traces = []
    for res in results:
        if "skip" in res:
            continue
        traces.append({"tid": json.dumps(res["case"], sort_keys=True), "api": res["case"]["api"], "events": res["events"]})
    traces.append({"tid": "CORRUPT-spawn", "api": "parse", "events": [{"k": "exec", "a": "probe"}, {"k": "spawn", "a": "x"}]})
    traces.append({"tid": "CORRUPT-write", "api": "doctrans", "events": [{"k": "openw", "a": "output"}, {"k": "openw", "a": "elsewhere"}]})
    tf = os.path.join(work, "effects.json")
    with open(tf, "w") as f:
        json.dump(traces, f)
    r = run.tlc("TraceEffects", "MC_TraceEffects.cfg", workers=1, env={"TRACE_FILE": tf}, timeout=1200)
    rejected = {d["reject"]: d for d in r.printed if isinstance(d, dict) and "reject" in d}
    for c in ("CORRUPT-spawn", "CORRUPT-write"):
        if c not in rejected:
            raise MachineryError("binding demonstration failed: TraceEffects accepted " + c)
        del rejected[c]
    n_events = 0
    for res in results:
        if "skip" in res:
            continue
        run.replayed += 1
        case = res["case"]
        key = (case["api"], case["slot"], case["payload"])
        tid = json.dumps(case, sort_keys=True)
        n_events += len(res["events"])
        bad = []
        if tid in rejected:
            at = rejected[tid]["at"]
            bad.append("event {} {} is not allowed during {}: {}".format(at, res["events"][at - 1], case["api"], res["detail"][at - 1][:160]))
        if res["sentinels"] and case["api"] != "sync_properties_eval":
            bad.append("a payload ran: sentinel files {} were created".format(res["sentinels"]))
        if bad:
            run.violation("{} with hostile {} in slot {}: {}".format(case["api"], case["payload"], case["slot"], "; ".join(bad)),
                          case, key=key)
        else:
            run.held(key if case["payload"] != "benign" else None)
        if len(run.samples) < 3 and case["payload"] != "benign" and res["events"]:
            run.sample({"case": case, "events": res["events"][:6], "detail": res["detail"][:3]})
    run.extra["audit_events_recorded"] = n_events
    run.extra["traces"] = len(traces) - 2
    run.exhaustive = True
