"""Generic replay of TLC-enumerated conversion behaviours through the real code (binding R for C01-C06, C08).

A case (one terminal state dumped by TLC) is
    {"cfg": {...}, "i": abstract interface, "exp": Norm(cfg, i), "asb": AsBuilt(cfg, i), "devs": [deviation ids]}
It is concretised (gamma), driven through the real emitter/renderer/parser, and the REAL result is compared
 - with gamma(exp): equal -> the property held on this behaviour;
 - otherwise with gamma(asb): equal and devs non-empty -> the listed finding(s), exactly as recorded;
 - otherwise -> VIOLATION.
"""

import collections
import contextlib
import io
import json
import zlib

from harness import gamma as G
from harness.common import pmap


def salt_of(case, seed):
    return (zlib.crc32(json.dumps([case["cfg"], case["i"]], sort_keys=True).encode()) + seed * 7919) & 0xFFFF


# What a parser handed out stays the caller's: a batch of conversions is ONE caller that keeps every returned interface and re-reads it
# when the batch is over (a cache that hands out one mutable object twice, an emitter that edits what an earlier parse returned, show here).
HELD = []          # (index of the case within the batch, the returned object, what it read then)
CURRENT = [0]


def _hold(back, pl):
    if back is not None and len(HELD) < 4096:
        HELD.append((CURRENT[0], back, json.dumps(pl, sort_keys=True, default=repr)))


def run_docstring(cfg, ir):
    from harness import real

    text, back = real.rt_docstring(ir, style=cfg["style"], edd=cfg["edd"], et=cfg["et"], ww=cfg.get("ww", True),
                                   parse_edd=None if cfg.get("keep") else False)
    pl = real.plain(back)
    _hold(back, pl)
    return text, pl


def run_format(cfg, ir):
    from harness import real

    f = cfg["fmt"]
    kw = {}
    if f in ("class", "pydantic", "argparse"):
        kw = dict(style=cfg["style"], edd=cfg["edd"])
    elif f == "function":
        kw = dict(style=cfg["style"], edd=cfg["edd"], ann=cfg["ann"], kwonly=cfg["kwonly"])
    elif f == "json_schema":
        kw = {}
    elif f.startswith("sqlalchemy"):
        kw = dict(style=cfg["style"], force_pk=cfg["force_pk"])
    elif f == "docstring":
        return run_docstring(cfg, ir)
    src, back = real.ROUND[f](ir, **kw)
    pl = real.plain(back)
    _hold(back, pl)
    return src, pl


RUNNERS = {"docstring": run_docstring, "format": run_format}


def judge_case(args):
    """a case whose description is "long" is judged for a sweep of description lengths (the first failing length is reported)"""
    case = args[0]
    if any(p.get("doc") == "long" for p in case["i"]["params"]):
        res = None
        for n in range(40, 150):
            G.LONG_LEN[0] = n
            try:
                res = _judge_case(args)
            finally:
                G.LONG_LEN[0] = 120
            if res["verdict"] != "held":
                res["long_len"] = n
                return res
        return res
    return _judge_case(args)


def _judge_case(args):
    case, seed, runner = args
    g = G.Gamma(seed)
    salt = salt_of(case, seed)
    ir = g.iface(case["i"], salt)
    try:
        with contextlib.redirect_stdout(io.StringIO()), contextlib.redirect_stderr(io.StringIO()):
            art, real = RUNNERS[runner](case["cfg"], ir)
        raised = None
    except Exception as e:  # noqa
        art, real, raised = None, None, type(e).__name__
    res = {"salt": salt, "raised": raised, "art": art if isinstance(art, str) else None}
    if runner == "docstring" and isinstance(art, str) and "lines" in case and not any(p.get("doc") == "long" for p in case["i"]["params"]):
        from harness import doclines
        try:
            res["line_drift"] = doclines.drift(case, art, list(ir["params"].keys()))
        except Exception as e:  # noqa -- diagnostic only
            res["line_drift"] = "tokeniser failed: {!r}".format(e)
    exp = case["exp"]
    # a configuration that asks for the default to be documented in prose gets that sentence back in the description
    strip = (runner == "format" and bool(case["cfg"].get("edd"))) or bool(case["cfg"].get("keep"))
    if raised is None and exp["raises"] == "no":
        d = G.compare(real, g.expected(exp, case["i"], salt), strip)
        if not d:
            res["verdict"] = "held"
            return res
        res["diffs"] = d
    elif raised is not None and exp["raises"] == raised:
        res["verdict"] = "held"
        return res
    else:
        res["diffs"] = [("raises", "raises {} (expected {})".format(raised, exp["raises"]))]
    # predicate failed: is it exactly a listed deviation?
    asb = case["asb"]
    if case["devs"]:
        if asb.get("wild"):
            res["verdict"] = "finding"
            return res
        if raised is not None:
            if asb["raises"] == raised:
                res["verdict"] = "finding"
                return res
        elif asb["raises"] == "no":
            d2 = G.compare(real, g.expected(asb, case["i"], salt), strip)
            if not d2:
                res["verdict"] = "finding"
                return res
            res["diffs_asbuilt"] = d2
    res["verdict"] = "violation"
    res["real"] = real
    res["ir"] = G_plain(ir)
    return res


def G_plain(ir):
    from harness import real

    return real.plain(ir)


def _batch(args):
    from harness import real

    del HELD[:]
    out = []
    for k, a in enumerate(args):
        CURRENT[0] = k
        out.append(judge_case(a))
    for k, back, snap in HELD:
        try:
            now = json.dumps(real.plain(back), sort_keys=True, default=repr)
        except Exception as e:  # noqa
            now = "unreadable: {!r}".format(e)
        if now != snap and out[k].get("verdict") != "violation":
            out[k]["verdict"] = "violation"
            out[k]["diffs"] = [("aliased", "the interface returned for this case was changed afterwards by a LATER conversion in the same process: "
                                "it read {} and now reads {}".format(snap[:160], now[:160]))]
    del HELD[:]
    return out


def abstract_key(case, res):
    """cluster key for triage output"""
    kinds = sorted({w for w, _ in res.get("diffs", [])})
    cfg = tuple(sorted((k, str(v)) for k, v in case["cfg"].items()))
    ps = tuple((p["typ"], p["def"], p["doc"]) for p in case["i"]["params"])
    r = case["i"]["ret"]
    return (cfg, tuple(kinds), ps, (r["typ"], r["def"], r["doc"]))


def replay(run, cases, runner, label=None, max_report=None):
    """Replay `cases`; updates `run`. Returns per-verdict counts."""
    seed = run.seed
    items = [(c, seed, runner) for c in cases]
    batches = [items[k:k + 64] for k in range(0, len(items), 64)]
    counts = collections.Counter()
    clusters = collections.Counter()
    n = 0
    for res_batch in pmap(_batch, batches, chunksize=1):
        for res in res_batch:
            case = cases[n]
            n += 1
            run.replayed += 1
            key = json.dumps([case["cfg"], case["i"]], sort_keys=True)
            v = res["verdict"]
            counts[v] += 1
            for d in case["devs"]:
                run.trigger(d)
            if res.get("line_drift"):
                DRIFT.append((case["cfg"], _short(case["i"]), res["line_drift"]))
            if v == "held":
                run.held(key)
            elif v == "finding":
                for d in case["devs"]:
                    run.finding(d, "{} cfg={} i={}".format(label or runner, case["cfg"], _short(case["i"])),
                                case={"case": case, "runner": runner}, key=key)
            else:
                what = "{} cfg={} i={}: {}".format(label or runner, case["cfg"], _short(case["i"]),
                                                    "; ".join(w for _, w in res["diffs"][:4]))
                if res.get("diffs_asbuilt"):
                    what += "  [as-built model {} also differs: {}]".format(case["devs"], res["diffs_asbuilt"][0][1])
                run.violation(what, {"case": case, "runner": runner, "real": res.get("real"), "ir": res.get("ir"),
                                     "artefact": res.get("art")}, key=key)
                clusters[abstract_key(case, res)] += 1
            if v != "violation" and len(run.samples) < 4 and case["i"]["params"]:
                run.sample({"cfg": case["cfg"], "i": case["i"], "exp": case["exp"], "artefact": (res.get("art") or "")[:400],
                            "verdict": v})
    if DRIFT:
        kinds = collections.Counter((str(c.get("style")), d.split(":")[1][:60]) for c, _, d in DRIFT)
        for (st, what), n_ in kinds.most_common(6):
            ex = next((c, i_, d) for c, i_, d in DRIFT if str(c.get("style")) == st and d.split(":")[1][:60] == what)
            run.model_drift("DocLines.tla ({} cases, style {}): cfg={} i={}: {}".format(n_, st, ex[0], ex[1], ex[2]))
        run.extra["doclines_drift_cases"] = len(DRIFT)
        del DRIFT[:]
    run.extra.setdefault("verdicts", {})
    for k, v in counts.items():
        run.extra["verdicts"][k] = run.extra["verdicts"].get(k, 0) + v
    return counts, clusters


DRIFT = []


def _short(i):
    ps = ",".join("{}/{}/{}".format(p["typ"], p["def"], p["doc"]) for p in i["params"])
    r = i["ret"]
    return "[{}] ret={} doc={}".format(ps, "-" if r["typ"] == "none" else "{}/{}/{}".format(r["typ"], r["def"], r["doc"]), i["doc"])


def enabled_constant(run, extra=()):
    return "{" + ", ".join('"%s"' % k for k in sorted(set(run.known) | set(extra))) + "}"


def dump_cases(run, module, cfg, constants, shards=12, require_devs=True, enabled=None):
    """Run the as-built configuration of a conversion spec with exactly the open findings enabled and return the
    dumped behaviours; every listed finding must be reachable in the model (else known_findings.txt or the model is wrong)."""
    from harness.common import MachineryError

    c = dict(constants)
    c["Enabled"] = enabled if enabled is not None else enabled_constant(run)
    r = run.tlc(module, cfg, shards=shards, constants=c, timeout=3000)
    cases = r.printed
    if not cases:
        raise MachineryError("{} {} produced no behaviours".format(module, cfg))
    if require_devs:
        seen = {d for case in cases for d in case["devs"]}
        missing = sorted(set(run.known) - seen)
        if missing:
            raise MachineryError("listed findings {} are unreachable in {} {} -- fix known_findings.txt or the model".format(
                missing, module, cfg))
    return cases


def replay_one(run, path):
    with open(path) as f:
        rec = json.load(f)["case"]
    replay(run, [rec["case"]], rec["runner"])
