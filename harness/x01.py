"""X01 -- the command line (cdd/__main__.py) conforms to Cli.tla.   (Not one of the listed properties: specification coverage.)

TLC: Cli.tla -- ValidateBeforeEffect, OneCall, Total, ExpressibleInv on the command line AS DESIGNED; ValidateBeforeEffect and OneCall
     AS BUILT; the two as-built departures (`sync --truth sqlalchemy` crashes; --type-annotations and --no-word-wrap cannot be
     combined) must be FOUND by TLC (MC_Cli_asbuilt_total.cfg, MC_Cli_asbuilt_expressible.cfg).
R:   every invocation TLC enumerates (as built) is concretised into an argv over real temporary files and run through the real
     cdd.__main__.main with the eight command functions replaced by recorders; the observed (outcome, callees, image of the options)
     must equal the model's.  A mismatch means Cli.tla no longer describes the entry point: exit 1.
"""

import contextlib
import io
import json
import os
import shutil
import tempfile

from harness.common import MachineryError, pmap

CALLEES = ("doctrans", "exmod", "gen", "openapi_bulk", "gen_routes", "upsert_routes", "sync_properties", "ground_truth")


def argv_of(inv, d):
    def f(state, name):
        p = os.path.join(d, name)
        if state == "exists":
            with open(p, "w") as fh:
                fh.write("x = 1\n")
        return p

    c = inv["cmd"]
    if c == "nothing":
        return []
    if c == "sync":
        a = ["sync", "--truth", inv["truth"]]
        for k, opt in (("cls", "--class"), ("fn", "--function"), ("ap", "--argparse-function")):
            if inv[k] != "absent":
                a += [opt, f(inv[k], k + ".py"), opt + "-name", "N"]
        return a
    if c == "sync_properties":
        a = ["sync_properties", "--input-filename", f(inv["inp"], "in.py"), "--input-param", "a", "--output-filename", f(inv["out"], "out.py"),
             "--output-param", "b"]
        return a + (["--input-eval"] if inv["eval"] else []) + (["--output-param-wrap", "Optional[{output_param}]"] if inv["wrap"] else [])
    if c == "gen":
        return ["gen", "--name-tpl", "{name}Config", "--input-mapping", "pkg.mapping", "--emit", "class", "-o", f(inv["out"], "gen_out.py"),
                "--phase", str(inv["phase"])] + (["--parse", "class"] if inv["parse"] == "class" else [])
    if c == "gen_routes":
        return ["gen_routes", "--crud", "CRD", "--model-path", "models.py", "--model-name", "Pet", "--routes-path", "routes.py"] + \
               (["--route", "/v2/pets"] if inv["route"] == "given" else [])
    if c == "openapi":
        return ["openapi", "--model-paths", "models.py", "--routes-paths", "routes.py"] + (["--app-name", "shop"] if inv["app"] == "given" else [])
    if c == "doctrans":
        flag = {"ta": "--type-annotations", "nta": "--no-type-annotations", "nww": "--no-word-wrap"}
        return ["doctrans", "--filename", f(inv["file"], "doc.py"), "--format", "google"] + [flag[x] for x in sorted(inv["flags"])]
    if c == "exmod":
        a = ["exmod", "-m", "somepkg", "--emit", "class", "-o", os.path.join(d, "out")]
        a += ["--dry-run"] if inv["dry"] else []
        a += ["--recursive"] if inv["recursive"] else []
        a += {"none": [], "black": ["--blacklist", "somepkg.a"], "white": ["--whitelist", "somepkg.a"]}[inv["filters"]]
        return a
    raise KeyError(c)


def image_of(inv, calls, d):
    """project the recorded keyword arguments onto the model's `Image`"""
    c = inv["cmd"]
    name, args, kw = calls[0]
    rp = lambda p: os.path.realpath(p)  # noqa: E731
    if c == "sync":
        ns, truth_file = args[0], args[1]
        files = sum(len(v) for k, v in vars(ns).items() if isinstance(v, list) and not k.endswith("_names"))
        truth_opt = {"class": "cls.py", "function": "fn.py", "argparse_function": "ap.py"}[inv["truth"]]
        return {"truth": ns.truth, "truth_file": "realpath" if truth_file == rp(os.path.join(d, truth_opt)) else truth_file, "files": files}
    if c == "sync_properties":
        ok = kw["input_filename"] == rp(os.path.join(d, "in.py")) and kw["output_filename"] == rp(os.path.join(d, "out.py"))
        return {"input_eval": kw["input_eval"], "wrap": "None" if kw["output_param_wrap"] is None else "given",
                "paths": "realpath" if ok else "NOT realpath: {} {}".format(kw["input_filename"], kw["output_filename"])}
    if c == "gen":
        return {"phase": kw["phase"], "parse_name": kw["parse_name"]}
    if c == "gen_routes":
        r = kw["route"]
        up = calls[1][2]
        if up["route"] != r or up["routes"] != "ROUTES" or up["primary_key"] != "PK" or up["routes_path"] != "routes.py":
            return {"route": "upsert_routes was not given the generator's results: {}".format(up)}
        return {"route": "as given" if r == "/v2/pets" else "/api/<model name, lower case>" if r == "/api/pet" else r}
    if c == "openapi":
        return {"app_name": "as given" if kw["app_name"] == "shop" else kw["app_name"]}
    if c == "doctrans":
        return {"docstring_format": "format" if kw.get("docstring_format") == "google" and "format" not in kw else "format not mapped",
                "type_annotations": kw["type_annotations"], "no_word_wrap": kw["no_word_wrap"]}
    if c == "exmod":
        g = lambda v: "None" if v is None else "given"  # noqa: E731
        return {"dry_run": kw["dry_run"], "recursive": kw["recursive"], "mock_imports": kw["mock_imports"],
                "blacklist": g(kw["blacklist"]), "whitelist": g(kw["whitelist"])}
    raise KeyError(c)


def run_one(args):
    case, workroot = args
    import cdd.__main__ as cli

    inv = case["inv"]
    d = tempfile.mkdtemp(prefix="x01-", dir=workroot)
    calls = []
    saved = {}
    try:
        argv = argv_of(inv, d)
        for n in CALLEES:
            saved[n] = getattr(cli, n)

            def rec(*a, _n=n, **kw):
                calls.append((_n, a, kw))
                return ("ROUTES", "PK") if _n == "gen_routes" else None
            setattr(cli, n, rec)
        outcome = None
        try:
            with contextlib.redirect_stdout(io.StringIO()), contextlib.redirect_stderr(io.StringIO()):
                cli.main(argv)
            outcome = "dispatched" if calls else "returned without calling anything"
        except SystemExit as e:
            outcome = "usage" if e.code == 2 else "SystemExit({})".format(e.code)
        except IOError:
            outcome = "IOError"
        except Exception as e:  # noqa
            outcome = "crash"
            crash = "{}: {}".format(type(e).__name__, str(e)[:80])
        obs = {"outcome": outcome, "calls": [c[0] for c in calls]}
        if outcome == "crash":
            obs["crash"] = crash
        if outcome == "dispatched":
            try:
                obs["image"] = image_of(inv, calls, d)
            except Exception as e:  # noqa
                obs["image"] = {"projection failed": repr(e)}
        return {"argv": [a.replace(d, "<tmp>") for a in argv], "obs": obs}
    finally:
        for n, v in saved.items():
            setattr(cli, n, v)
        shutil.rmtree(d, ignore_errors=True)


def _batch(items):
    return [run_one(a) for a in items]


def check(run, replay=None):
    run.rule = ("invocation = (sub-command, abstract value of every argument the entry point itself inspects); every invocation of Cli.tla "
                "(as built) is run through the real cdd.__main__.main with the command functions replaced by recorders")
    run.assumptions += ["X01 is specification coverage, not one of the listed properties: a mismatch means Cli.tla no longer describes the code"]
    run.tlc("Cli", "MC_Cli_designed.cfg", workers=4, timeout=600)
    run.tlc("Cli", "MC_Cli_asbuilt.cfg", workers=4, timeout=600)
    for cfg, inv in (("MC_Cli_asbuilt_total.cfg", "Total"), ("MC_Cli_asbuilt_expressible.cfg", "ExpressibleInv")):
        r = run.tlc("Cli", cfg, expect_ok=False, workers=1, timeout=600)
        if r.violated != inv and inv not in (r.stdout or ""):
            raise MachineryError("Cli.tla as built does not exhibit the recorded departure {} ({})".format(inv, cfg))
    r = run.tlc("Cli", "MC_Cli_dump.cfg", shards=4, timeout=600)
    cases = r.printed
    if not cases:
        raise MachineryError("Cli dump produced no invocations")
    work = tempfile.mkdtemp(prefix="verif-x01-")
    try:
        items = [(c, work) for c in cases]
        n = 0
        for rb in pmap(_batch, [items[k:k + 16] for k in range(0, len(items), 16)], chunksize=1):
            for res in rb:
                case = cases[n]
                n += 1
                run.replayed += 1
                key = json.dumps(case["inv"], sort_keys=True)
                want = {"outcome": case["outcome"], "calls": case["calls"]}
                if case["outcome"] == "dispatched":
                    want["image"] = case["image"]
                got = dict(res["obs"])
                got.pop("crash", None)
                if got == want:
                    run.held(key)
                else:
                    run.violation("`cdd {}`: observed {} but Cli.tla says {}".format(" ".join(res["argv"]), res["obs"], want),
                                  {"inv": case["inv"], "argv": res["argv"], "observed": res["obs"], "model": want}, key=key)
                if len(run.samples) < 3 and n % 37 == 1:
                    run.sample({"argv": res["argv"], "observed": res["obs"]})
        run.exhaustive = True
    finally:
        shutil.rmtree(work, ignore_errors=True)
