"""Replay of Convert.tla behaviours (chains of conversions / repeated rounds) through the real code, hop by hop."""

import contextlib
import io
import json

from harness import conv
from harness import gamma as G
from harness.common import pmap


def cfg_of(f):
    """the fixed configuration a format is used with inside a chain (Convert!CfgOf)"""
    if f == "docstring_keep":
        return {"style": "rest", "edd": True, "et": True}
    if f.startswith("docstring"):
        return {"style": f.split("_")[1] if "_" in f else "rest", "edd": True, "et": True}
    return {"fmt": f, "style": "rest", "edd": False, "ann": True, "kwonly": True}


def real_hop(f, ir):
    """one real round trip: IR -> emit -> render -> re-read -> parse -> IR (the real, not the plain, IR)"""
    from harness import real

    c = cfg_of(f)
    if f == "json_schema":
        _, back = real.rt_json(ir)
        return back
    if f in ("sqlalchemy", "sqlalchemy_table"):
        _, back = real.rt_sql(ir, f, style="rest", force_pk=True)
        return back
    if f.startswith("docstring"):
        # hop "docstring": the sentence `Defaults to ..` is stripped from the description again when it is read back;
        # hop variant KEEP_SENTENCE (the library's own defaults, emit_default_doc=True on parse): it stays in the description
        _, back = real.rt_docstring(ir, style=c["style"], edd=c["edd"], et=c["et"], parse_edd=None if f == "docstring_keep" else False)
        # a docstring carries no name
        back.setdefault("name", ir.get("name"))
        if back.get("name") is None:
            back["name"] = ir.get("name")
        return back
    kw = dict(style=c["style"], edd=c["edd"])
    if f == "function":
        kw.update(ann=c["ann"], kwonly=c["kwonly"])
    _, back = real.ROUND[f](ir, **kw)
    return back


def core(p):
    """names, order, types, defaults of a plain IR"""
    return [[n, e.get("typ"), e.get("default")] for n, e in p["params"]]


def run_behaviour(args):
    case, seed, mode = args
    from harness import real

    g = G.Gamma(seed)
    salt = conv.salt_of({"cfg": case["hist"], "i": case["i"]}, seed)
    ir = g.iface(case["i"], salt)
    states = [real.plain(ir)]
    res = {"salt": salt, "verdict": "held", "hop": None}
    cur = ir
    for k, f in enumerate(case["hist"]):
        try:
            with contextlib.redirect_stdout(io.StringIO()), contextlib.redirect_stderr(io.StringIO()):
                cur = real_hop(f, cur)
            p = real.plain(cur)
        except Exception as e:  # noqa
            if mode == "fix" and k == 0:
                res.update(verdict="held", hop=1, trivial=True)   # cannot be emitted at all: not a fixpoint question
                break
            res.update(verdict="fail", hop=k + 1, what="hop {} ({}) raises {}: {}".format(k + 1, f, type(e).__name__, str(e)[:120]))
            break
        states.append(p)
        if mode == "chain":
            if core(p) != core(states[0]):
                res.update(verdict="fail", hop=k + 1,
                           what="after hop {} ({}) core {} != initial {}".format(k + 1, f, core(p), core(states[0])))
                break
        else:
            if k >= 1 and p != states[-2]:
                diffs = [(a, b) for a, b in zip(p["params"], states[-2]["params"]) if a != b]
                res.update(verdict="fail", hop=k + 1,
                           what="round {} of {} changed the interface again: {} (doc {!r} vs {!r}, returns {} vs {})".format(
                               k + 1, f, diffs[:2], p["doc"] if p["doc"] != states[-2]["doc"] else "=",
                               states[-2]["doc"] if p["doc"] != states[-2]["doc"] else "=",
                               p["returns"] if p["returns"] != states[-2]["returns"] else "=",
                               states[-2]["returns"] if p["returns"] != states[-2]["returns"] else "="))
                break
    res["states"] = states if res["verdict"] == "fail" else states[-1:]
    # diagnostic: the as-built model's prediction of the final state
    if res["verdict"] == "held" and not case["top"] and mode == "chain":
        exp = {"raises": "no", "wild": False, "doc": case["cur"]["doc"],
               "params": [{"present": True, "wild": False, "typs": [e["typ"]], "def": e["def"], "doc": e["doc"]}
                          for e in case["cur"]["params"]],
               "ret": {"present": False, "wild": False, "typs": [], "def": "absent", "doc": "absent"}}
        d = G.compare(states[-1], g.expected(exp, case["i"], salt))
        d = [x for x in d if x[0] not in ("ret", "doc", "param.doc")]   # the chain model makes no claim about the prose
        if d:
            res["drift"] = d[0][1]
    return res


def _batch(items):
    return [run_behaviour(a) for a in items]


def replay(run, cases, mode, finding_of=None):
    """finding_of(case, res) -> finding id or None (how a failing behaviour is attributed to a listed finding)"""
    items = [(c, run.seed, mode) for c in cases]
    batches = [items[k:k + 32] for k in range(0, len(items), 32)]
    n = 0
    for rb in pmap(_batch, batches, chunksize=1):
        for res in rb:
            case = cases[n]
            n += 1
            run.replayed += 1
            key = json.dumps([case["hist"], case["i"]], sort_keys=True)
            fids = finding_of(case, res) if finding_of else []
            for d in (case["devs"] if mode == "chain" else fids):
                run.trigger(d)
            if res["verdict"] == "held":
                run.held(key)
                if res.get("drift"):
                    run.model_drift("Convert.tla {} {}: {}".format(case["hist"], conv._short(case["i"]), res["drift"]))
            else:
                label = "chain {} from {}".format("->".join(case["hist"]), conv._short(case["i"]))
                if fids:
                    for d in fids:
                        run.finding(d, label + ": " + res["what"], case={"case": case, "mode": mode}, key=key)
                else:
                    run.violation(label + ": " + res["what"], {"case": case, "mode": mode, "states": res["states"]}, key=key)
            if len(run.samples) < 4 and n % 97 == 1:
                run.sample({"hist": case["hist"], "i": case["i"], "verdict": res["verdict"], "final": res["states"][-1]})


def replay_one(run, path):
    with open(path) as f:
        rec = json.load(f)["case"]
    return rec
