"""X03 -- ir_merge (cdd/shared/parse/utils/parser_utils.py) conforms to IrMerge.tla.   (Specification coverage, not a listed property.)

TLC: IrMerge.tla -- the laws Idempotent, Stable, NoInvention, TargetKept, NamesCovered, Associative over all pairs / triples of abstract
     entries; Commutative must be REFUTED (vacuity guard).
R:   every pair TLC enumerates -- 10 000 pairs of entries, 256 pairs of name sequences, 841 pairs of return values -- is concretised into
     two real interface descriptions and merged by the real ir_merge; the result must equal gamma(model result) and `other` must be left
     as it was.
"""

import copy
import json
from collections import OrderedDict

from harness.common import NCPU, MachineryError, pmap

DOC = {"empty": "", "d1": "the first description", "d2": "another description"}
TYP = {"int": "int", "str": "str", "OptInt": "Optional[int]", "ListStr": "List[str]"}
DEF = {"None": "```(None)```", "zero": 0, "v1": 5, "v2": "x"}


def entry(e):
    out = OrderedDict()
    if e["doc"] != "absent":
        out["doc"] = DOC[e["doc"]]
    if e["typ"] != "absent":
        out["typ"] = TYP[e["typ"]]
    if e["def"] != "absent":
        out["default"] = DEF[e["def"]]
    return out


def is_noret(e):
    return e["doc"] == "NONE"


def build(mode, x):
    """abstract operand -> concrete IR"""
    ir = {"name": "f", "doc": "", "params": OrderedDict(), "returns": None}
    if mode == "entries":
        ir["params"]["p"] = entry(x)
    elif mode == "params":
        for p in x:
            ir["params"][p["name"]] = entry(p["e"])
    else:
        if not is_noret(x):
            ir["returns"] = OrderedDict((("return_type", entry(x)),))
    return ir


def expected(mode, m):
    if mode == "entries":
        return {"params": [["p", dict(entry(m))]], "returns": None}
    if mode == "params":
        return {"params": [[p["name"], dict(entry(p["e"]))] for p in m], "returns": None}
    return {"params": [], "returns": None if is_noret(m) else dict(entry(m))}


def observe(ir):
    r = ir.get("returns")
    return {"params": [[n, dict(e)] for n, e in ir["params"].items()],
            "returns": None if not r or "return_type" not in r else dict(r["return_type"])}


def run_batch(cases):
    import cdd.shared.parse.utils.parser_utils as pu

    out = []
    for c in cases:
        t, o = build(c["mode"], c["t"]), build(c["mode"], c["o"])
        o_before = copy.deepcopy(o)
        try:
            res = pu.ir_merge(t, o)
            got = observe(res)
            same_obj = res is t
        except Exception as e:  # noqa
            out.append({"err": "ir_merge raises {}: {}".format(type(e).__name__, str(e)[:80])})
            continue
        want = expected(c["mode"], c["m"])
        # an entry without any field and no entry at all are the same observation for a return value
        if c["mode"] == "rets" and want["returns"] == {} and got["returns"] in (None, {}):
            got["returns"] = {}
        fails = []
        if got != want:
            fails.append("result {} != model {}".format(got, want))
        if not same_obj:
            fails.append("the result is not the target object")
        if observe(o) != observe(o_before):
            fails.append("`other` was modified: {} -> {}".format(observe(o_before), observe(o)))
        out.append({"fails": fails})
    return out


def check(run, replay=None):
    run.rule = ("case = (target, other) over the abstract entry domain (4 descriptions x 5 types x 5 defaults = 100 entries; all 10 000 pairs), "
                "all pairs of injective name sequences over three names, all pairs of return values; merged by the real ir_merge")
    run.assumptions += ["X03 is specification coverage, not one of the listed properties: a mismatch means IrMerge.tla no longer describes the code"]
    run.tlc("IrMerge", "MC_IrMerge_laws.cfg", workers=1, timeout=900)
    r = run.tlc("IrMerge", "MC_IrMerge_comm.cfg", expect_ok=False, workers=1, timeout=900)
    if r.violated != "CommInv":
        raise MachineryError("IrMerge.tla does not refute commutativity (vacuous law checker?)")
    cases = []
    for mode in ("entries", "params", "rets"):
        r = run.tlc("IrMerge", "MC_IrMerge_{}.cfg".format(mode), shards=NCPU if mode == "entries" else 4, timeout=900)
        cases += r.printed
    if len(cases) < 10000:
        raise MachineryError("IrMerge dump produced only {} cases".format(len(cases)))
    n = 0
    for rb in pmap(run_batch, [cases[k:k + 256] for k in range(0, len(cases), 256)], chunksize=1):
        for res in rb:
            c = cases[n]
            n += 1
            run.replayed += 1
            key = json.dumps([c["mode"], c["t"], c["o"]], sort_keys=True)
            if "err" in res:
                run.violation("{} t={} o={}: {}".format(c["mode"], c["t"], c["o"], res["err"]), {"case": c}, key=key)
            elif res["fails"]:
                run.violation("{} t={} o={}: {}".format(c["mode"], json.dumps(c["t"])[:150], json.dumps(c["o"])[:150], "; ".join(res["fails"])[:400]),
                              {"case": c}, key=key)
            else:
                run.held(key)
            if len(run.samples) < 3 and n % 3001 == 1:
                run.sample({"mode": c["mode"], "t": c["t"], "o": c["o"], "m": c["m"]})
    run.exhaustive = True
