"""C13 -- sync_properties updates exactly the selected property.

TLC: SyncProps.tla -- OnlyTarget, DefaultsAligned, InputUntouched, TargetUpdated over all target shapes (function /
     self-method / cls-method / class; 1..4 positional parameters with every suffix of defaults; 0..2 keyword-only; annotated
     or not) x every target slot x input kind x mode (plain / wrap template / --input-eval): 4890 cases.
R:   every case is concretised as a real pair of modules; the real sync_properties runs; the output module's AST is
     projected slot by slot and compared with the spec's post-state; the sibling definition, the body of the target, the
     input file and everything else must be unchanged.
"""

import ast
import contextlib
import io
import json
import os
import random
import shutil
import tempfile

from harness.common import NCPU, MachineryError, pmap

ANN = {1: "int", 2: "str", 3: "float", 4: "bool", 5: "List[int]", 6: "Optional[str]"}
DEF = {1: "1", 2: "'two'", 3: "3.0", 4: "True", 5: "(5,)", 6: "None"}
SRC_ANN = "Literal['a', 'b']"
WRAP = "Optional[List[{output_param}]]"
EVAL_VALUES = {"strs": ("('x', 'y')", "Literal['x', 'y']"), "mixed": ("(0, 1, 2, True, 2.5)", "Literal[0, 1, 2, True, 2.5]")}


def slot_src(s, k, is_class):
    name = "{}{}".format(*s["name"])
    ann = ANN[s["ann"][1]] if s["ann"][0] == "T" else None
    d = DEF[s["def"][1]] if s["def"][0] == "d" else None
    return name, ann, d


def build_output(case):
    sh = case["c"]["shape"]
    slots = case["before"]
    lines = ["from typing import List, Literal, Optional", "", "", "def sibling(p1: int, p2=2, *, k1: str = 'k'):",
             '    """untouched"""', "    return p1", "", ""]
    if sh["kind"] == "class":
        lines += ["class Target(object):", '    """The target"""', ""]
        for k, s in enumerate(slots):
            n, a, d = slot_src(s, k, True)
            lines.append("    {}: {} = {}".format(n, a, d))
        lines += ["", "    def other(self, p1=1):", "        return p1"]
    else:
        args = []
        if sh["kind"] == "method_self":
            args.append("self")
        elif sh["kind"] == "method_cls":
            args.append("cls")
        star_done = False
        for k, s in enumerate(slots):
            n, a, d = slot_src(s, k, False)
            if s["kwonly"] and not star_done:
                args.append("*")
                star_done = True
            args.append(n + (": " + a if a else "") + ((" = " + d) if d and a else ("=" + d) if d else ""))
        fn = ["def target({}):".format(", ".join(args)), '    """The target"""', "    return {}".format("p1")]
        if sh["kind"].startswith("method"):
            lines += ["class Holder(object):", '    """holds"""', ""]
            if sh["kind"] == "method_cls":
                lines.append("    @classmethod")
            lines += ["    " + ln for ln in fn]
        else:
            lines += fn
    return "\n".join(lines) + "\n"


INPUT = '''from typing import Literal, Optional

SRC_VALUES = {ev}


class Cfg(object):
    """The config"""

    src: {ann} = 'a'
    other: int = 1
    p1: {ann} = 'a'
    p2: {ann} = 'a'
    p3: {ann} = 'a'
    p4: {ann} = 'a'
    k1: {ann} = 'a'
    k2: {ann} = 'a'


def producer(first: int, src: {ann} = 'a', p1: {ann} = 'a', p2: {ann} = 'a', p3: {ann} = 'a', p4: {ann} = 'a', k1: {ann} = 'a',
             k2: {ann} = 'a'):
    """The producer"""
    return src
'''.replace('{ann}', SRC_ANN)


def project(tree, sh):
    """-> (slots of the target as [name, ann source, default source, kwonly], dump of everything else)"""
    def src(n):
        return None if n is None else ast.unparse(n)

    if sh["kind"] == "class":
        cls = next(n for n in tree.body if isinstance(n, ast.ClassDef) and n.name == "Target")
        slots = [[n.target.id, src(n.annotation), src(n.value), False] for n in cls.body if isinstance(n, ast.AnnAssign)]
        rest_body = [ast.dump(n) for n in cls.body if not isinstance(n, ast.AnnAssign)]
        others = [ast.dump(n) for n in tree.body if n is not cls]
        return slots, [rest_body, others, [src(b) for b in cls.bases], [src(d) for d in cls.decorator_list]]
    if sh["kind"] == "function":
        fn = next(n for n in tree.body if isinstance(n, ast.FunctionDef) and n.name == "target")
        holder = None
    else:
        holder = next(n for n in tree.body if isinstance(n, ast.ClassDef) and n.name == "Holder")
        fn = next(n for n in holder.body if isinstance(n, ast.FunctionDef) and n.name == "target")
    a = fn.args
    pos = list(a.posonlyargs) + list(a.args)
    first = None
    if sh["kind"] != "function":
        first, pos = pos[0].arg, pos[1:]
    ndef = len(a.defaults)
    slots = []
    for k, arg in enumerate(pos):
        j = k - (len(pos) - ndef)
        slots.append([arg.arg, src(arg.annotation), src(a.defaults[j]) if j >= 0 else None, False])
    for arg, d in zip(a.kwonlyargs, a.kw_defaults):
        slots.append([arg.arg, src(arg.annotation), src(d), True])
    rest = [first, src(a.vararg), src(a.kwarg), [ast.dump(b) for b in fn.body], [src(d) for d in fn.decorator_list], src(fn.returns)]
    others = [ast.dump(n) for n in tree.body if n is not fn and n is not holder]
    if holder is not None:
        others.append([ast.dump(n) for n in holder.body if n is not fn])
    return slots, [rest, others]


def run_case(args):
    case, workroot = args
    import cdd.compound.sync_properties as sp

    c = case["c"]
    sh = c["shape"]
    d = tempfile.mkdtemp(prefix="c13-", dir=workroot)
    res = {"case": case, "fails": []}
    try:
        out_p, in_p = os.path.join(d, "out_mod.py"), os.path.join(d, "in_mod.py")
        out_src = build_output(case)
        with open(out_p, "w") as f:
            f.write(out_src)
        with open(in_p, "w") as f:
            f.write(INPUT.replace('{ev}', EVAL_VALUES[c.get('vals', 'strs')][0]))
        tname = "{}{}".format(*case["before"][c["target"] - 1]["name"])
        if sh["kind"] == "class":
            out_param = "Target." + tname
        elif sh["kind"] == "function":
            out_param = "target." + tname
        else:
            out_param = "Holder.target." + tname
        if c["mode"] == "eval":
            in_param = "SRC_VALUES"
        else:
            in_name = tname if c.get("same") else "src"
            in_param = ("Cfg." if c["input"] == "class_attr" else "producer.") + in_name
        before_slots, before_rest = project(ast.parse(out_src), sh)
        if c.get("prev", "none") != "none":
            # an earlier call in this process, from the same unchanged input file, into another output file
            other = os.path.join(d, "other_out.py")
            with open(other, "w") as f:
                f.write("def consumer(x: int = 1, y=2):\n    return x\n")
            try:
                with contextlib.redirect_stdout(io.StringIO()), contextlib.redirect_stderr(io.StringIO()):
                    sp.sync_properties(input_eval=c["prev"] == "eval", input_filename=in_p,
                                       input_params=["SRC_VALUES" if c["prev"] == "eval" else in_param if c["mode"] != "eval" else "Cfg.src"],
                                       output_filename=other, output_params=["consumer.x"],
                                       output_param_wrap=WRAP if c["prev"] == "wrap" else None)
            except Exception:
                pass
        try:
            with contextlib.redirect_stdout(io.StringIO()), contextlib.redirect_stderr(io.StringIO()):
                sp.sync_properties(input_eval=c["mode"] == "eval", input_filename=in_p, input_params=[in_param],
                                   output_filename=out_p, output_params=[out_param],
                                   output_param_wrap=WRAP if c["mode"] == "wrap" else None)
        except Exception as e:  # noqa
            res["raised"] = type(e).__name__
            if not case["raises"]:
                res["fails"].append("sync_properties raises {}: {}".format(type(e).__name__, str(e)[:120]))
            return res
        if case["raises"]:
            res["stale"] = True
        with open(in_p) as f:
            if f.read() != INPUT.replace('{ev}', EVAL_VALUES[c.get('vals', 'strs')][0]):
                res["fails"].append("InputUntouched: the input file was modified")
        with open(out_p) as f:
            text = f.read()
        res["text"] = text
        try:
            tree = ast.parse(text)
        except SyntaxError as e:
            res["fails"].append("the output file is no longer valid Python: {}".format(e))
            return res
        after_slots, after_rest = project(tree, sh)
        # expected post-state from the spec
        want = []
        for k, s in enumerate(case["after"]):
            n, a, dflt = before_slots[k][0], before_slots[k][1], before_slots[k][2]
            if s["def"][0] == "srcvalue":
                dflt = "'a'"
            elif s["def"][0] == "none":
                dflt = None
            if k == c["target"] - 1:
                if c["mode"] != "eval" and not c.get("same"):
                    n = "src"
                a = {"plain": SRC_ANN, "wrap": WRAP.format(output_param=SRC_ANN), "eval": EVAL_VALUES[c.get("vals", "strs")][1]}[c["mode"]]
            want.append([n, a, dflt, s["kwonly"]])
        norm = lambda x: None if x is None else ast.unparse(ast.parse(x, mode="eval"))  # noqa: E731
        got = [[n, norm(a), norm(dd), kw] for n, a, dd, kw in after_slots]
        want = [[n, norm(a), norm(dd), kw] for n, a, dd, kw in want]
        if len(got) != len(want):
            res["fails"].append("DefaultsAligned: the target has {} slots, had {}".format(len(got), len(want)))
        else:
            for k, (g_, w_) in enumerate(zip(got, want)):
                if g_ != w_ and k == c["target"] - 1 and c.get("same") and case["after"][k]["def"][0] == "srcvalue" \
                        and sh["kind"] != "class" and g_[:2] + g_[3:] == w_[:2] + w_[3:] and g_[2] == norm(before_slots[k][2]):
                    continue      # the selected slot kept its OWN default instead of taking the input's value: the statement allows both
                if g_ != w_:
                    clause = "TargetUpdated" if k == c["target"] - 1 and g_[2:] == w_[2:] else \
                        "DefaultsAligned" if g_[2:] != w_[2:] else "OnlyTarget"
                    res["fails"].append("{}: slot {} is {} but the specification says {}".format(clause, k + 1, g_, w_))
        if after_rest != before_rest:
            res["fails"].append("OnlyTarget: something outside the selected property changed")
        return res
    finally:
        shutil.rmtree(d, ignore_errors=True)


def _batch(items):
    return [run_case(a) for a in items]


def check(run, replay=None):
    work = tempfile.mkdtemp(prefix="verif-c13-")
    try:
        _check(run, replay, work)
    finally:
        shutil.rmtree(work, ignore_errors=True)


def _check(run, replay, work):
    run.rule = ("case = (target shape: function / self-method / cls-method / class, 1..4 positional with every suffix of defaults, 0..2 "
                "keyword-only, annotated or not) x target slot x input kind (class attribute / function parameter) x mode (plain, wrap "
                "template, --input-eval) x mode of an earlier call in the same process from the same input; distinct = distinct cases")
    run.assumptions += ["'syntactically identical' is judged on the AST (the command re-formats the output file with black)"]
    from harness import conv
    run.tlc("SyncProps", "MC_SyncProps.cfg", workers=4, timeout=600)
    r = run.tlc("SyncProps", "MC_SyncProps_dump.cfg", shards=4, timeout=900, constants={"Enabled": conv.enabled_constant(run)})
    cases = r.printed
    missing = sorted(set(run.known) - {d for c in cases for d in c["devs"]})
    if missing:
        raise MachineryError("listed C13 findings {} are unreachable in SyncProps.tla".format(missing))
    if replay:
        with open(replay) as f:
            want = json.load(f)["case"]["case"]["c"]
        cases = [c for c in cases if c["c"] == want]
    elif run.tier == "quick":
        cases = random.Random(run.seed).sample(cases, min(6000, len(cases)))
    else:
        run.exhaustive = True
    if not cases:
        raise MachineryError("SyncProps dump produced no cases")
    items = [(c, work) for c in cases]
    n = 0
    for rb in pmap(_batch, [items[k:k + 16] for k in range(0, len(items), 16)], chunksize=1):
        for res in rb:
            case = res["case"]
            n += 1
            run.replayed += 1
            key = json.dumps(case["c"], sort_keys=True)
            for d in case["devs"]:
                run.trigger(d)
            if case["devs"] and not res["fails"] and not res.get("stale"):
                # the real result equals the as-built post-state exactly: the listed finding, as recorded
                for d in case["devs"]:
                    run.finding(d, "sync_properties {} into a class attribute from {}".format(case["c"]["mode"], case["c"]["input"]),
                                case={"case": case}, key=key)
            elif res["fails"]:
                c = case["c"]
                run.violation("sync_properties {} target slot {} of {} ({} positional, {} defaulted, {} kw-only, annotated={}) from {}: {}".format(
                    c["mode"], c["target"], c["shape"]["kind"], c["shape"]["npos"], c["shape"]["ndef"], c["shape"]["nkw"],
                    c["shape"]["annotated"], c["input"], "; ".join(res["fails"][:3])), {"case": case, "output": res.get("text")}, key=key)
            else:
                run.held(key)
            if len(run.samples) < 3 and n % 331 == 1:
                run.sample({"c": case["c"], "output": (res.get("text") or "")[:500]})
