"""Diagnostic binding of spec/DocLines.tla: the REAL emitted docstring text tokenised into line records and compared
with the specification's EmitLines (a mismatch is MODEL-DRIFT, never a verdict)."""

import re

from harness import gamma as G


def lex_of(doc_text):
    m = re.search(r"Defaults to ?(.*)$", doc_text.strip(), flags=re.S)
    if not m:
        return "none"
    t = m.group(1).strip()
    if t == "":
        return "nothing"
    if t == '""':
        return "dq_empty"
    if t == G.NoneStr:
        return "cq_none"
    if t.startswith("```") and t.endswith("```"):
        return "cq_code"
    if re.fullmatch(r"-?\d{10,}", t):
        return "big_decimal"
    if re.fullmatch(r"-?\d+(\.\d+)?e[-+]?\d+", t):
        return "exp_text"
    if re.fullmatch(r"0", t):
        return "decimal_zero"
    if re.fullmatch(r"\d+", t):
        return "decimal"
    if re.fullmatch(r"-\d+", t):
        return "neg_decimal"
    if re.fullmatch(r"\d+\.\d+(e-?\d+)?", t):
        return "float_text"
    if re.fullmatch(r"-\d+\.\d+(e-?\d+)?", t):
        return "neg_float_text"
    if t in ("True", "False"):
        return t
    if re.search(r"\w\.\w", t.strip('"')) and not re.fullmatch(r"-?[\d.e+-]+", t):
        return "dq_dotted" if t.startswith('"') else "bare_dotted"
    if t.strip('"') in ("path", "list", "true"):
        return "dq_keyword" if t.startswith('"') else "bare_keyword"
    phrase = bool(re.search(r"[ ;,/~]", t.strip('"')))
    if t.startswith('"') and t.endswith('"'):
        return "dq_phrase" if phrase else "dq_word"
    return "bare_phrase" if phrase else "bare_word"


def tokenise(text, style, names):
    """-> list of [k, n, typ or None, lex]"""
    idx = {n: k + 1 for k, n in enumerate(names)}
    out = []
    where = "head"
    lines = text.split("\n")
    # trailing blank lines are not part of the model
    while lines and not lines[-1].strip():
        lines.pop()
    while lines and not lines[0].strip():
        lines.pop(0)
    for k, ln in enumerate(lines):
        s = ln.strip()
        if not s:
            out.append(["blank", 0, None, "none"])
            continue
        if style == "rest":
            m = re.match(r":param (\w+): ?(.*)$", s)
            if m:
                out.append(["param", idx.get(m.group(1), -1), None, lex_of(m.group(2))])
                continue
            m = re.match(r":type (\w+): ```(.*)```$", s)
            if m:
                out.append(["type", idx.get(m.group(1), -1), m.group(2), "none"])
                continue
            if s.startswith(":return:"):
                out.append(["return", 0, None, "none"])
                continue
            m = re.match(r":rtype: ```(.*)```$", s)
            if m:
                out.append(["rtype", 0, m.group(1), "none"])
                continue
            out.append(["text", 0, None, "none"])
        elif style == "google":
            m = re.match(r"Returns:\s+(\S.*):$", s)
            if m:
                where = "returns"
                out.append(["gret_glued", 0, m.group(1), "none"])
                continue
            if s == "Args:":
                where = "args"
                out.append(["ArgsHdr", 0, None, "none"])
            elif s == "Returns:":
                where = "returns"
                out.append(["ReturnsHdr", 0, None, "none"])
            elif where == "args":
                m = re.match(r"(\w+) \((.*?)\): ?(.*)$", s) or re.match(r"(\w+)():\s?(.*)$", s)
                if m:
                    out.append(["garg", idx.get(m.group(1), -1), m.group(2) or None, lex_of(m.group(3))])
                else:
                    out.append(["cont", 0, None, "none"])
            elif where == "returns":
                if s.endswith(":") and not any(x[0] == "gret_typ" for x in out):
                    out.append(["gret_typ", 0, s[:-1], "none"])
                else:
                    out.append(["gret_doc", 0, None, "none"])
            else:
                out.append(["text", 0, None, "none"])
        else:
            nxt = lines[k + 1].strip() if k + 1 < len(lines) else ""
            if s in ("Parameters", "Returns") and nxt.startswith("---"):
                where = "params" if s == "Parameters" else "returns"
                out.append(["ParametersHdr" if s == "Parameters" else "ReturnsHdr", 0, None, "none"])
            elif set(s) == {"-"}:
                out.append(["dashes", 0, None, "none"])
            elif re.match(r"-{3,}\S", s) and where == "returns":
                glued = s.lstrip("-")
                if glued.startswith(" "):       # the DESCRIPTION is what got glued to the underline (no type was written)
                    out.append(["dashes_glued", 0, None, "none"])
                    out.append(["ndoc", 0, None, lex_of(glued.strip())])
                else:
                    out.append(["dashes_glued", 0, glued, "none"])
            elif where == "params" and not ln.startswith(" "):
                m = re.match(r"(\w+)(?: : (.*))?$", s)
                out.append(["nname", idx.get(m.group(1), -1) if m else -1, (m.group(2) if m else None) or None, "none"])
            elif where == "params":
                prev = [x for x in out if x[0] in ("nname", "ndoc")]
                n = prev[-1][1] if prev and prev[-1][0] == "nname" else 0
                out.append(["ndoc", n, None, lex_of(s)])
            elif where == "returns" and not ln.startswith(" "):
                out.append(["nret_typ", 0, s, "none"])
            elif where == "returns":
                out.append(["ndoc", 0, None, "none"])
            else:
                out.append(["text", 0, None, "none"])
    return out


def model_lines(lines, has_text):
    """spec line records -> the same projection"""
    out = []
    for ln in lines:
        if ln["k"] == "text" and not has_text:
            continue
        typ = None if ln["typ"] in ("absent", "none") else G.TYP[ln["typ"]]
        n = ln["n"]
        if ln["k"] == "ndoc" and n and not any(x[0] == "nname" and x[1] == n for x in out):
            n = 0          # the real text cannot say whose description it is without a name line
        out.append([ln["k"], n, typ, ln["lex"]])
    while out and out[-1][0] == "blank":
        out.pop()
    while out and out[0][0] == "blank":
        out.pop(0)
    return out


def drift(case, text, names):
    real = tokenise(text, case["cfg"]["style"], names)
    spec = model_lines(case["lines"], case["i"]["doc"] != "absent")
    # compare up to runs of blank lines (their number is layout, not structure)
    def squeeze(xs):
        out = []
        for x in xs:
            if x[0] == "blank" and out and out[-1][0] == "blank":
                continue
            out.append(x)
        return out
    a, b = squeeze(real), squeeze(spec)
    a = [x for x in a if x[0] != "blank"]
    b = [x for x in b if x[0] != "blank"]
    if a != b:
        k = next((j for j, (x, y) in enumerate(zip(a, b)) if x != y), min(len(a), len(b)))
        return "line {}: real {} vs DocLines!EmitLines {}".format(k, a[k] if k < len(a) else "<end>", b[k] if k < len(b) else "<end>")
    return None
