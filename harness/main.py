"""./check <property-id> [--tier quick|thorough] [--replay path]"""

import argparse
import importlib
import os
import sys
import traceback

from harness.common import MachineryError, Run


def main(argv=None):
    ap = argparse.ArgumentParser(prog="check")
    ap.add_argument("property")
    ap.add_argument("--tier", default=os.environ.get("VERIF_TIER") or "quick", choices=("quick", "thorough"))
    ap.add_argument("--replay", default=None)
    ap.add_argument("--seed", type=int, default=None)
    args = ap.parse_args(argv)
    seed = args.seed if args.seed is not None else int(os.environ.get("VERIF_SEED") or 0)
    pid = args.property.upper()
    try:
        mod = importlib.import_module("harness." + pid.lower())
    except ImportError:
        traceback.print_exc()
        print("no check for property " + pid)
        return 2
    run = Run(pid, args.tier, seed)
    try:
        mod.check(run, replay=args.replay)
        return run.finish()
    except MachineryError as e:
        print("MACHINERY-ERROR: {}".format(e))
        return 2
    except Exception:
        traceback.print_exc()
        print("MACHINERY-ERROR: unexpected exception in the harness")
        return 2


if __name__ == "__main__":
    sys.exit(main())
