"""C16 -- the generated OpenAPI document is closed and matches the requested CRUD.

TLC: OpenApi.tla -- Serialisable, Closed, BodiesDefined, PathParamsDeclared, OpsExact for every behaviour that adds 1..3
     models (5 name shapes x explicit/inferred primary key) and builds the document, x 7 CRUD subsets x 2 prefixes;
     ideal and as built.
R:   every dumped behaviour is laid out as real files: the models are emitted by the real SQLAlchemy emitter, routes are
     produced by the real gen_routes / upsert_routes, the document by the real openapi_bulk; the five predicates are
     evaluated on the real document (json.dumps, every $ref resolved, request bodies, path template parameters, the
     operations per path).  The direct emitter cdd.compound.openapi.emit.openapi is judged the same way, and the routes
     generated for a model are fed back through the route parser (RoutesDescribeModel).
"""

import contextlib
import copy
import io
import json
import os
import random
import re
import shutil
import tempfile

from harness import gamma as G
from harness.common import NCPU, MachineryError, pmap

SHAPE = {"Config_config_tbl": ("Config", "config_tbl"), "FooBar_foo_bar": ("FooBar", "foo_bar"), "node_node": ("node", "node"),
         "Other_other_tbl": ("Other", "other_tbl"), "Xy_xy": ("Xy", "xy"), "Pet_pet_tbl": ("Pet", "pet_tbl"), "Label_label": ("Label", "label")}
CLAUSE_FINDING = {"Serialisable": "openapi_inferred_pk_not_serialisable", "Closed": "openapi_key_titlecase",
                  }


def collect_refs(x, out):
    if isinstance(x, dict):
        for k, v in x.items():
            if k == "$ref" and isinstance(v, str):
                out.append(v)
            else:
                collect_refs(v, out)
    elif isinstance(x, list):
        for v in x:
            collect_refs(v, out)


def judge_document(doc, models, crud, prefix, pk_names):
    """the five predicates on a real document -> list of (clause, message)"""
    fails = []
    try:
        json.dumps(doc)
    except (TypeError, ValueError) as e:
        fails.append(("Serialisable", "the document is not serialisable JSON: {}".format(str(e)[:80])))
    doc = json.loads(json.dumps(doc, default=lambda o: "<<{}>>".format(type(o).__name__)))
    refs = []
    collect_refs(doc, refs)
    comps = doc.get("components", {})
    defined = {"#/components/{}/{}".format(sec, k) for sec, v in comps.items() if isinstance(v, dict) for k in v}
    dangling = sorted(set(refs) - defined)
    if dangling:
        fails.append(("Closed", "$refs that resolve to nothing in the document: {}".format(dangling[:4])))
    paths = doc.get("paths", {})
    want_ops = {}
    for name in models:
        coll = "{}/{}".format(prefix, name.lower())
        if "C" in crud:
            want_ops.setdefault(coll, set()).add("post")
        item = "{}/{{{}}}".format(coll, pk_names[name])
        if "R" in crud:
            want_ops.setdefault(item, set()).add("get")
        if "D" in crud:
            want_ops.setdefault(item, set()).add("delete")
    http = {"get", "post", "put", "delete", "patch", "head", "options", "trace"}
    got_ops = {p: {k for k in v if k in http} for p, v in paths.items()}
    got_ops = {p: o for p, o in got_ops.items() if o}
    if got_ops != want_ops:
        fails.append(("OpsExact", "operations {} != requested {}".format(
            {p: sorted(o) for p, o in sorted(got_ops.items())}, {p: sorted(o) for p, o in sorted(want_ops.items())})))
    # RoutesDescribeModel, on the document: everything said under a model's paths (summaries, descriptions of parameters and responses,
    # $refs) names that model and no other model of the document
    def strings_of(x, out):
        if isinstance(x, dict):
            for k_, v_ in x.items():
                strings_of(v_, out)
        elif isinstance(x, list):
            for v_ in x:
                strings_of(v_, out)
        elif isinstance(x, str):
            out.append(x)
    for p, v in paths.items():
        owner = next((m for m in models if p == "{}/{}".format(prefix, m.lower()) or p.startswith("{}/{}/".format(prefix, m.lower()))), None)
        if owner is None:
            continue
        texts = []
        strings_of(v, texts)
        for other in models:
            if other != owner and any(re.search(r"(?<![A-Za-z0-9_]){}(?![A-Za-z0-9_])".format(re.escape(other)), t) for t in texts):
                fails.append(("RoutesDescribeModel", "path {} was generated for {} but describes {}: {}".format(
                    p, owner, other, next(t for t in texts if re.search(r"(?<![A-Za-z0-9_]){}(?![A-Za-z0-9_])".format(re.escape(other)), t))[:80])))
    for p, v in paths.items():
        for tp in re.findall(r"\{([^}]+)\}", p):
            declared = {prm.get("name") for prm in v.get("parameters", []) if isinstance(prm, dict)}
            for op, o in v.items():
                if isinstance(o, dict):
                    declared |= {prm.get("name") for prm in o.get("parameters", []) if isinstance(prm, dict)}
            if tp not in declared:
                fails.append(("PathParamsDeclared", "path {} does not declare its template parameter {}".format(p, tp)))
        post = v.get("post")
        if isinstance(post, dict):
            rb = post.get("requestBody")
            if isinstance(rb, dict) and "$ref" in rb and rb["$ref"] not in defined:
                fails.append(("BodiesDefined", "request body {} of {} is not defined".format(rb["$ref"], p)))
            elif rb is None:
                fails.append(("BodiesDefined", "POST {} has no request body".format(p)))
    return fails


def model_source(g, name, tbl, pk):
    import cdd.sqlalchemy.emit
    from cdd.shared.source_transformer import to_code

    i = {"doc": "one", "params": [{"typ": "int", "def": "absent", "doc": "pk" if pk == "explicit" else "plain"},
                                  {"typ": "str", "def": "str", "doc": "plain"}, {"typ": "Opt_float", "def": "absent", "doc": "plain"}],
         "ret": {"typ": "none", "def": "absent", "doc": "absent"}}
    ir = g.iface(i, 0, name=name)
    pk_name = list(ir["params"].keys())[0] if pk == "explicit" else "id"
    return to_code(cdd.sqlalchemy.emit.sqlalchemy(copy.deepcopy(ir), class_name=name, table_name=tbl)), pk_name


def run_case(args):
    case, workroot = args
    from cdd.compound.openapi.gen_openapi import openapi_bulk
    from cdd.compound.openapi.gen_routes import gen_routes, upsert_routes

    G.NAME_COLS[0] = [0, 2, 3]
    g = G.Gamma(0)
    d = tempfile.mkdtemp(prefix="c16-", dir=workroot)
    res = {"case": case, "fails": [], "doc": None}
    try:
        names, srcs, pk_names = [], [], {}
        for m in case["models"]:
            name, tbl = SHAPE[m["shape"]]
            src, pkn = model_source(g, name, tbl, m["pk"])
            names.append(name)
            srcs.append(src)
            pk_names[name] = pkn
        mp, rp = os.path.join(d, "models.py"), os.path.join(d, "routes.py")
        with open(mp, "w") as f:
            f.write("from sqlalchemy import *\n\nBase = object\n\n\n" + "\n\n\n".join(srcs) + "\n")
        try:
            with contextlib.redirect_stdout(io.StringIO()), contextlib.redirect_stderr(io.StringIO()):
                for name in names:
                    route = "{}/{}".format(case["prefix"], name.lower())
                    routes, primary_key = gen_routes(app="rest_api", model_path=mp, model_name=name, crud=case["crud"], route=route)
                    upsert_routes(app="rest_api", routes=routes, routes_path=rp, route=route, primary_key=primary_key)
                doc = openapi_bulk(app_name="rest_api", model_paths=[mp], routes_paths=[rp])
        except Exception as e:  # noqa
            res["fails"].append(("raises", "the pipeline raises {}: {}".format(type(e).__name__, str(e)[:100])))
            return res
        res["fails"] = judge_document(doc, names, case["crud"], case["prefix"], pk_names)
        res["doc"] = json.dumps(doc, default=lambda o: "<<{}>>".format(type(o).__name__))[:1500]
        # RoutesDescribeModel: the generated routes, fed back through the real route parser, describe that same model:
        # one route per requested operation and model, on the right path, whose $refs name that model (or ServerError)
        import ast as _ast
        import cdd.routes.parse.bottle as rb
        with open(rp) as f:
            rtree = _ast.parse(f.read())
        seen_routes = {}
        for fn in rtree.body:
            if not isinstance(fn, _ast.FunctionDef):
                continue
            deco = next((dd for dd in fn.decorator_list if isinstance(dd, _ast.Call) and isinstance(dd.func, _ast.Attribute)
                         and dd.func.attr in ("post", "get", "delete")), None)
            if deco is None:
                continue
            try:
                with contextlib.redirect_stdout(io.StringIO()), contextlib.redirect_stderr(io.StringIO()):
                    parsed = rb.bottle(copy.deepcopy(fn))
            except Exception as e:  # noqa
                res["fails"].append(("RoutesDescribeModel", "the route parser raises on generated route {}: {}".format(fn.name, type(e).__name__)))
                continue
            refs = []
            collect_refs(parsed, refs)
            path = deco.args[0].value if deco.args and isinstance(deco.args[0], _ast.Constant) else "?"
            seen_routes.setdefault((deco.func.attr, path.split("/:")[0]), []).append(sorted(set(r_.rsplit("/", 1)[1] for r_ in refs)))
        for name in names:
            coll = "{}/{}".format(case["prefix"], name.lower())
            for letter, method in (("C", "post"), ("R", "get"), ("D", "delete")):
                got = seen_routes.get((method, coll), [])
                if (letter in case["crud"]) != (len(got) == 1):
                    res["fails"].append(("RoutesDescribeModel", "routes.py holds {} {} route(s) for {} but crud={}".format(
                        len(got), method, coll, case["crud"])))
                for refs in got:
                    foreign = [r_ for r_ in refs if r_ not in (name, name + "Body", "ServerError")]
                    if foreign:
                        res["fails"].append(("RoutesDescribeModel", "the {} route of {} refers to {}".format(method, name, foreign)))
        return res
    finally:
        shutil.rmtree(d, ignore_errors=True)


def _batch(items):
    return [run_case(a) for a in items]


def direct_emitter_cases(run):
    """the direct path: cdd.compound.openapi.emit.openapi on NameModelRouteIdCrud records"""
    from cdd.compound.openapi.emit import openapi
    from cdd.compound.openapi.utils.emit_openapi_utils import NameModelRouteIdCrud
    import cdd.json_schema.emit

    g = G.Gamma(0)
    i = {"doc": "one", "params": [{"typ": "int", "def": "absent", "doc": "plain"}, {"typ": "str", "def": "str", "doc": "plain"}],
         "ret": {"typ": "none", "def": "absent", "doc": "absent"}}
    n = 0
    for name in ("Config", "FooBar", "node", "Pet", "Label"):
        for crud in ("C", "R", "D", "CR", "CD", "RD", "CRD"):
            for prefix in ("/api", "/v1/things"):
                ir = g.iface(i, 0, name=name)
                schema = cdd.json_schema.emit.json_schema(copy.deepcopy(ir))
                try:
                    with contextlib.redirect_stdout(io.StringIO()), contextlib.redirect_stderr(io.StringIO()):
                        doc = openapi((NameModelRouteIdCrud(name=name, model=schema, route="{}/{}".format(prefix, name.lower()),
                                                            id="alpha", crud=crud),))
                    fails = judge_document(doc, [name], crud, prefix, {name: "alpha"})
                except Exception as e:  # noqa
                    fails = [("raises", "openapi.emit raises {}: {}".format(type(e).__name__, str(e)[:80]))]
                run.replayed += 1
                n += 1
                key = ("direct", name, crud, prefix)
                if fails:
                    run.violation("openapi.emit for {} crud={} prefix={}: {}".format(name, crud, prefix, "; ".join(m for _, m in fails[:3])),
                                  {"direct": [name, crud, prefix]}, key=key)
                else:
                    run.held(key)
    run.extra["direct_emitter_cases"] = n


def check(run, replay=None):
    work = tempfile.mkdtemp(prefix="verif-c16-")
    try:
        _check(run, replay, work)
    finally:
        shutil.rmtree(work, ignore_errors=True)


def _check(run, replay, work):
    from harness import conv

    run.rule = ("behaviour = sequence of 1..2 (quick) / 1..3 (thorough) models (5 name shapes x explicit/inferred primary key) added "
                "one by one, then the document built, x 7 CRUD subsets x 2 route prefixes; distinct = distinct behaviours")
    run.assumptions += ["models are 3-column SQLAlchemy classes emitted by the real emitter; sqlalchemy itself is not imported"]
    quick = run.tier == "quick"
    run.tlc("OpenApi", "MC_OpenApi_ideal.cfg", constants={"MaxModels": 3}, workers=4, timeout=900)
    r = run.tlc("OpenApi", "MC_OpenApi_dump.cfg", shards=7, timeout=900,
                constants={"MaxModels": 2 if quick else 3, "Enabled": conv.enabled_constant(run)})
    cases = r.printed
    missing = sorted(set(run.known) - {d for c in cases for d in c["devs"]})
    if missing:
        raise MachineryError("listed C16 findings {} are unreachable in OpenApi.tla".format(missing))
    if replay:
        with open(replay) as f:
            want = json.load(f)["case"]
        if "direct" in want:
            direct_emitter_cases(run)
            return
        cases = [c for c in cases if c["models"] == want["case"]["models"] and c["crud"] == want["case"]["crud"]
                 and c["prefix"] == want["case"]["prefix"]]
    elif quick:
        rnd = random.Random(run.seed)
        one = [c for c in cases if len(c["models"]) == 1]
        two = [c for c in cases if len(c["models"]) == 2]
        cases = one + rnd.sample(two, min(250, len(two)))
    else:
        run.exhaustive = True
        rnd = random.Random(run.seed)
        three = [c for c in cases if len(c["models"]) == 3]
        cases = [c for c in cases if len(c["models"]) < 3] + rnd.sample(three, min(1500, len(three)))
    items = [(c, work) for c in cases]
    n = 0
    for rb in pmap(_batch, [items[k:k + 8] for k in range(0, len(items), 8)], chunksize=1):
        for res in rb:
            case = res["case"]
            n += 1
            run.replayed += 1
            key = json.dumps([case["models"], case["crud"], case["prefix"]], sort_keys=True)
            for d in case["devs"]:
                run.trigger(d)
            label = "models={} crud={} prefix={}".format([(m["shape"].split("_")[0], m["pk"]) for m in case["models"]],
                                                           case["crud"], case["prefix"])
            if not res["fails"]:
                run.held(key)
            else:
                unexplained = [(c, m) for c, m in res["fails"] if CLAUSE_FINDING.get(c) not in case["devs"]]
                if unexplained:
                    run.violation("{}: {}".format(label, "; ".join(m for _, m in unexplained[:3])),
                                  {"case": case, "document": res["doc"]}, key=key)
                else:
                    for fid in sorted({CLAUSE_FINDING[c] for c, _ in res["fails"]}):
                        run.finding(fid, "{}: {}".format(label, next(m for c, m in res["fails"] if CLAUSE_FINDING[c] == fid)),
                                    case={"case": case}, key=key)
            if len(run.samples) < 3 and n % 101 == 1:
                run.sample({"models": case["models"], "crud": case["crud"], "prefix": case["prefix"], "document": (res["doc"] or "")[:500]})
    if not replay:
        direct_emitter_cases(run)
