"""Shared machinery: TLC runner, verdict bookkeeping, known findings, evidence files.

Exit codes of a check: 0 = property held on everything explored (possibly with KNOWN-FINDING lines),
1 = VIOLATION (a line `VIOLATION property=<id> replay=<path>` is printed), 2 = machinery failure.
"""

import hashlib
import json
import os
import re
import shutil
import subprocess
import sys
import tempfile
import time

VERIF = os.path.dirname(os.path.dirname(os.path.abspath(__file__)))
SPEC = os.path.join(VERIF, "spec")
REPO = os.environ.get("VERIF_REPO", "/repo")
# where evidence/ and replays/ are written: /verif, except when a tool evaluates a scratch tree (tools/seedmatrix.py --tree)
OUT = os.environ.get("VERIF_OUT", VERIF)
PY = "/venv/bin/python"
NCPU = min(16, os.cpu_count() or 1)


class MachineryError(Exception):
    """The verification machinery itself failed (exit 2); never a statement about the code"""


# ----------------------------------------------------------------------------------------------
# known findings
# ----------------------------------------------------------------------------------------------


def load_known_findings(pid):
    """
    :return: {finding_id: what} of the *open* findings for property `pid`
    """
    out = {}
    path = os.path.join(VERIF, "known_findings.txt")
    if not os.path.exists(path):
        return out
    with open(path) as f:
        for line in f:
            line = line.strip()
            if not line.startswith("finding:"):
                continue
            m = re.match(r'finding:\s+property=(\S+)\s+id=(\S+)\s+(.*)$', line)
            if m is None:
                raise MachineryError("unparsable known_findings line: " + line)
            if m.group(1) == pid:
                what = re.search(r'what="([^"]*)"', m.group(3))
                out[m.group(2)] = what.group(1) if what else m.group(3)
    return out


# ----------------------------------------------------------------------------------------------
# TLC
# ----------------------------------------------------------------------------------------------


class TlcResult(object):
    def __init__(self):
        self.rc = None
        self.stdout = ""
        self.generated = 0
        self.distinct = 0
        self.depth = 0
        self.violated = None  # name of violated invariant / property, or None
        self.coverage = {}  # action name -> (distinct, total)
        self.printed = []  # decoded PrintT(ToJson(..)) records
        self.wall_s = 0.0
        self.cmd = ""

    @property
    def ok(self):
        return self.rc == 0


_PRINT_RE = re.compile(r'^"(\{.*\}|\[.*\])"$')


def parse_tlc_output(res, text):
    res.stdout = text
    for line in text.splitlines():
        m = re.search(r"(\d+) states generated, (\d+) distinct states found", line)
        if m:
            res.generated, res.distinct = int(m.group(1)), int(m.group(2))
        m = re.search(r"The number of states generated: (\d+)", line)
        if m and not res.generated:
            res.generated = int(m.group(1))       # -simulate mode
        m = re.search(r"depth of the complete state graph search is (\d+)", line)
        if m:
            res.depth = int(m.group(1))
        m = re.search(r"Invariant (\S+) is violated", line)
        if m:
            res.violated = m.group(1)
        m = re.search(r"Action property (\S+) is violated|Temporal properties were violated", line)
        if m:
            res.violated = m.group(1) or "temporal"
        m = re.match(r"^<(\w+) line \d+, col \d+ to line \d+, col \d+ of module (\w+)>: (\d+):(\d+)", line)
        if m:
            res.coverage[m.group(2) + "!" + m.group(1)] = (int(m.group(3)), int(m.group(4)))
        m = _PRINT_RE.match(line.strip())
        if m:
            try:
                res.printed.append(json.loads(json.loads(line.strip())))
            except ValueError:
                pass
    return res


def run_tlc(
    module,
    cfg,
    workers=NCPU,
    simulate=None,
    depth=None,
    seed=None,
    coverage=False,
    env=None,
    timeout=3600,
    spec_dir=SPEC,
    deadlock=False,
    dfs_queue=False,
    extra=(),
    constants=None,
):
    """
    Run TLC on spec_dir/module.tla with spec_dir/cfg. Returns TlcResult (never raises on a property
    violation; raises MachineryError on parse/semantic errors or timeouts).
    """
    work = tempfile.mkdtemp(prefix="verif-tlc-")
    res = TlcResult()
    try:
        cmd = [
            "java",
            "-XX:+UseParallelGC",
            "-Xmx12g",
            "-Djava.io.tmpdir=" + work,      # TLC leaves an empty tlc-<n> directory per process in the JVM's temp dir
        ]
        if dfs_queue:
            cmd.append("-Dtlc2.tool.queue.IStateQueue=StateDeque")
        cmd += [
            "-cp",
            "/opt/veriftools/tla/tla2tools.jar:/opt/veriftools/tla/CommunityModules-deps.jar",
            "tlc2.TLC",
            "-workers",
            str(workers),
            "-metadir",
            os.path.join(work, "meta"),
            "-noGenerateSpecTE",
            "-config",
            _materialise_cfg(spec_dir, cfg, constants, work),
        ]
        if coverage:
            cmd += ["-coverage", "1"]
        if deadlock:
            cmd += ["-deadlock"]
        if simulate is not None:
            cmd += ["-simulate", simulate]
            if depth is not None:
                cmd += ["-depth", str(depth)]
        if seed is not None:
            cmd += ["-seed", str(seed)]
        cmd += list(extra)
        cmd.append(module if module.endswith(".tla") else module + ".tla")
        e = dict(os.environ)
        e.pop("JAVA_TOOL_OPTIONS", None)
        if env:
            e.update(env)
        res.cmd = " ".join(cmd[cmd.index("tlc2.TLC"):])
        t0 = time.time()
        try:
            p = subprocess.run(
                cmd, cwd=spec_dir, env=e, stdout=subprocess.PIPE, stderr=subprocess.STDOUT, timeout=timeout
            )
        except subprocess.TimeoutExpired:
            raise MachineryError("TLC timed out after {}s: {}".format(timeout, res.cmd))
        res.wall_s = time.time() - t0
        res.rc = p.returncode
        parse_tlc_output(res, p.stdout.decode("utf-8", "replace"))
        # 0 ok, 12 safety violation, 13 liveness violation, 11 deadlock; anything else = machinery
        if res.rc not in (0, 10, 11, 12, 13):
            raise MachineryError(
                "TLC failed (rc={}) on {} {}:\n{}".format(res.rc, module, cfg, res.stdout[-3000:])
            )
        return res
    finally:
        shutil.rmtree(work, ignore_errors=True)
        # TLC drops a states/ directory next to the spec when -metadir is ignored by some modes
        shutil.rmtree(os.path.join(spec_dir, "states"), ignore_errors=True)


def _materialise_cfg(spec_dir, cfg, constants, work):
    """cfg files in spec/ are the documented defaults; `constants` overrides `NAME = value` lines"""
    if not constants:
        return cfg
    with open(os.path.join(spec_dir, cfg)) as f:
        text = f.read()
    for k, v in constants.items():
        text, n = re.subn(r"(?m)^(\s*){}\s*=\s*.*$".format(re.escape(k)), r"\g<1>{} = {}".format(k, v), text)
        if n != 1:
            raise MachineryError("constant {} not found exactly once in {}".format(k, cfg))
    out = os.path.join(work, os.path.basename(cfg))
    with open(out, "w") as f:
        f.write(text)
    return out


def run_tlc_sharded(module, cfg, nshards=NCPU, constants=None, **kw):
    """N single-worker TLC processes side by side, each with Shard = k (PrintT lines stay intact)."""
    from concurrent.futures import ThreadPoolExecutor

    def one(k):
        c = dict(constants or {})
        c.update({"Shard": k, "NShards": nshards})
        return run_tlc(module, cfg, workers=1, constants=c, **kw)

    t0 = time.time()
    with ThreadPoolExecutor(max_workers=min(nshards, NCPU)) as ex:
        parts = list(ex.map(one, range(nshards)))
    res = TlcResult()
    res.rc = max(p.rc for p in parts)
    res.generated = sum(p.generated for p in parts)
    res.distinct = sum(p.distinct for p in parts)
    res.depth = max(p.depth for p in parts)
    res.violated = next((p.violated for p in parts if p.violated), None)
    res.printed = [x for p in parts for x in p.printed]
    res.stdout = next((p.stdout for p in parts if p.rc != 0), parts[0].stdout)
    res.cmd = parts[0].cmd + " (x{} shards)".format(nshards)
    res.wall_s = time.time() - t0
    for p in parts:
        for k, v in p.coverage.items():
            a = res.coverage.get(k, (0, 0))
            res.coverage[k] = (a[0] + v[0], a[1] + v[1])
    return res


def spec_hash(*files):
    h = hashlib.sha256()
    for f in files:
        with open(os.path.join(SPEC, f), "rb") as fh:
            h.update(fh.read())
    return h.hexdigest()[:16]


# ----------------------------------------------------------------------------------------------
# a check run
# ----------------------------------------------------------------------------------------------


class Run(object):
    """Bookkeeping of one check run: TLC results, replayed cases, verdicts, evidence"""

    def __init__(self, pid, tier, seed, level="model_checking"):
        self.pid, self.tier, self.seed, self.level = pid, tier, seed, level
        self.t0 = time.time()
        self.known = load_known_findings(pid)
        self.known_hits = {}  # fid -> count
        self.known_example = {}
        self.triggers = {}  # fid -> times the abstract trigger was exercised
        self.violations = []  # (what, replay path)
        self.drift = []
        self.evaluations = 0
        self.distinct = set()
        self.replayed = 0
        self.tlc_runs = []
        self.samples = []
        self.assumptions = []
        self.extra = {}
        self.rule = ""
        self.exhaustive = False
        self.max_violation_lines = int(os.environ.get("VERIF_MAX_VIOLATION_LINES", "25"))
        os.makedirs(os.path.join(OUT, "replays", pid), exist_ok=True)

    # -- TLC -------------------------------------------------------------------------------
    def tlc(self, module, cfg, expect_ok=True, shards=None, **kw):
        r = run_tlc_sharded(module, cfg, nshards=shards, **kw) if shards else run_tlc(module, cfg, **kw)
        self.tlc_runs.append(
            {
                "module": module,
                "cfg": cfg,
                "states_generated": r.generated,
                "distinct_states": r.distinct,
                "depth": r.depth,
                "violated": r.violated,
                "wall_s": round(r.wall_s, 2),
                "coverage": {k: list(v) for k, v in sorted(r.coverage.items())} if r.coverage else None,
            }
        )
        if expect_ok and not r.ok:
            raise MachineryError(
                "TLC reports {} on the specification itself ({} {}); the model is wrong, not the code:\n{}".format(
                    r.violated or "rc=%s" % r.rc, module, cfg, r.stdout[-2500:]
                )
            )
        if r.coverage:
            zero = [
                k
                for k, v in r.coverage.items()
                if v[1] == 0 and not k.endswith("!Init") and k.split("!")[0] == module
            ]
            if zero:
                raise MachineryError("actions never taken in {} {}: {}".format(module, cfg, zero))
        return r

    # -- verdicts --------------------------------------------------------------------------
    def held(self, key=None, n=1):
        self.evaluations += n
        if key is not None:
            self.distinct.add(key)

    def sample(self, s):
        if len(self.samples) < 6:
            self.samples.append(s)

    def trigger(self, fid):
        self.triggers[fid] = self.triggers.get(fid, 0) + 1

    def finding(self, fid, what, case=None, key=None):
        """A failure of the property's predicate that equals a listed finding exactly.
        If `fid` is not listed as open for this property it is a violation."""
        self.evaluations += 1
        if key is not None:
            self.distinct.add(key)
        if fid in self.known:
            self.known_hits[fid] = self.known_hits.get(fid, 0) + 1
            self.known_example.setdefault(fid, what)
            return True
        self.violation("{} ({}; not listed as an open finding)".format(what, fid), case, count=False)
        return False

    def violation(self, what, case=None, count=True, key=None):
        if count:
            self.evaluations += 1
        if key is not None:
            self.distinct.add(key)
        n = len(self.violations)
        path = os.path.join(OUT, "replays", self.pid, "violation_{:03d}.json".format(n))
        if n < 200:
            with open(path, "w") as f:
                json.dump(
                    {"property": self.pid, "what": what, "case": case, "seed": self.seed, "tier": self.tier},
                    f,
                    indent=1,
                    default=repr,
                    sort_keys=True,
                )
        self.violations.append((what, path))
        if n < self.max_violation_lines:
            print("VIOLATION property={} replay={}".format(self.pid, path))
            print("  what: {}".format(what[:600]))
            sys.stdout.flush()

    def model_drift(self, what):
        self.drift.append(what)
        if len(self.drift) <= 10:
            print("MODEL-DRIFT: {} {}".format(self.pid, what[:400]))

    # -- finish ----------------------------------------------------------------------------
    def finish(self):
        for fid in sorted(self.known_hits):
            print(
                "KNOWN-FINDING: property={} {} {} [{} case(s) this run; e.g. {}]".format(
                    self.pid, fid, self.known[fid], self.known_hits[fid], str(self.known_example[fid])[:200]
                )
            )
        stale = [
            fid for fid in self.known if self.triggers.get(fid, 0) > 0 and self.known_hits.get(fid, 0) == 0
        ]
        for fid in stale:
            print("STALE-FINDING: property={} {} trigger exercised {} times, wrong outcome never observed".format(
                self.pid, fid, self.triggers[fid]))
        states = sum(t["distinct_states"] for t in self.tlc_runs)
        trans = sum(t["states_generated"] for t in self.tlc_runs)
        cov = {
            "states": states,
            "transitions": trans,
            "traces_validated_against_impl": self.replayed,
            "samples": self.samples or ["(no case reached)"],
            "evaluations": self.evaluations,
            "distinct_nontrivial": len(self.distinct),
            "rule": self.rule,
            "exhaustive": self.exhaustive,
            "tlc_runs": self.tlc_runs,
            "known_findings_printed": {k: v for k, v in sorted(self.known_hits.items())},
            "stale_findings": stale,
            "model_drift": len(self.drift),
            "model_drift_examples": self.drift[:10],
        }
        cov.update(self.extra)
        ev = {
            "property_id": self.pid,
            "tier": self.tier,
            "seed": self.seed,
            "level": self.level,
            "coverage": cov,
            "assumptions": self.assumptions,
            "wall_s": round(time.time() - self.t0, 2),
            "violations": len(self.violations),
        }
        # X.. = specification coverage beyond the listed properties: its record is kept apart from the properties' evidence
        sub = "evidence" if self.pid.startswith("C") else "evidence_extra"
        os.makedirs(os.path.join(OUT, sub), exist_ok=True)
        path = os.path.join(OUT, sub, self.pid + ".json")
        with open(path + ".tmp", "w") as f:
            json.dump(ev, f, indent=1, default=repr, sort_keys=True)
        os.replace(path + ".tmp", path)
        print(
            "{} tier={} seed={}: TLC {} distinct states / {} generated; {} real-code evaluations "
            "({} distinct), {} replayed behaviours; {} violation(s), {} known-finding case(s), {} drift; {:.1f}s".format(
                self.pid, self.tier, self.seed, states, trans, self.evaluations, len(self.distinct),
                self.replayed, len(self.violations), sum(self.known_hits.values()), len(self.drift),
                time.time() - self.t0,
            )
        )
        if len(self.violations) > self.max_violation_lines:
            print("  ({} further violations not printed)".format(len(self.violations) - self.max_violation_lines))
        return 1 if self.violations else 0


# ----------------------------------------------------------------------------------------------
# misc
# ----------------------------------------------------------------------------------------------


def scratch_dir(prefix="verif-"):
    return tempfile.mkdtemp(prefix=prefix)


def pmap(fn, items, procs=NCPU, chunksize=16):
    """Map `fn` over `items` on `procs` worker processes (fork); order preserved."""
    import multiprocessing as mp

    if procs <= 1 or len(items) < 4:
        return [fn(x) for x in items]
    ctx = mp.get_context("fork")
    with ctx.Pool(procs) as pool:
        return pool.map(fn, items, chunksize=max(1, min(chunksize, len(items) // (procs * 2) or 1)))
