"""C11 -- every parse, emit and doctrans call terminates.

TLC: Loops.tla -- the five index-walking `while` loops transcribed with explicit variants; Progress (action
     property), Termination (under weak fairness, no constraint) and Linear over all character sequences
     (<= MaxLen) / all docstring token sequences (<= MaxTok).  MC_Loops_pinned.cfg (the emitter loop as it was at
     the pinned commit) must be REJECTED by TLC -- the property formulation is not vacuous.
R:   every TLC-enumerated docstring token sequence is concretised (x 3 indent levels) and run through the real
     entry points (parse, split, emit as doc / param doc / original_doc_str, emit of the parsed IR and re-parse,
     doctrans 1..3 times on a generated module) under the loop monitor (sys.monitoring back-edge counts per
     activation, bound A + B*n) and a wall-clock watchdog.  Pumped inputs (a possibly truncated token, one token repeated 40 times,
     an optional word; Loops.tla Mode = "pumped") decide "proportional to the size of the input" also for the loops CPython runs
     in C (regular expressions, str methods): milliseconds normally, a 20 s watchdog.
V:   the recorded (n, max iterations per activation, done) of every call are validated by TLC against
     TraceLoops.tla.
"""

import json
import os
import random
import shutil
import signal
import tempfile
import textwrap
from collections import OrderedDict

from harness.common import NCPU, MachineryError, pmap

A, B = 2000, 200
WATCHDOG_S = 60

GAMMA = {
    "NL": "\n", "IND": "    ", "WSLINE": "  \n", "word": "foo ", "dot": ".", "colon": ":", "tick": "`",
    "rparam": ":param a: ", "rtype": ":type a: ", "rreturn": ":return: ", "rrtype": ":rtype: ",
    "gargs": "Args:\n", "greturns": "Returns:\n", "graises": "Raises:\n", "gitem": "  a (int): b",
    "nparams": "Parameters\n", "nreturns": "Returns\n", "dashes": "----------\n", "nitem": "a : int",
    "defaults": "Defaults to 5", "TAB": "\t", "NBSP": "\u00a0", "or": " or ", "of": " of ",
    # tokens cut short (Loops!CutTokens): heads of pumped inputs
    "defaults_cut": "Defaults", "rparam_cut": ":param", "gargs_cut": "Args", "dashes_cut": "--", "nparams_cut": "Parameters",
}
PUMP_RUN = 40            # the model checks runs of PumpK = 6; the concrete run is long enough for a super-linear matcher to show
PUMP_WATCHDOG_S = 20     # a pumped text is < 1 kB and takes milliseconds; 20 s is not "proportional to the size of the input"
EXTRA = ["Defaults to ", "``` ```", "```None```", "Union[int,", " or ", " of ", "number", "'", '"', "\\", ",",
         "  \n", "\t", "(", ")", "Raises\n", "Usage:\n", ">>> f(1)\n", ":cvar a: ", "a (int, optional): b\n",
         "Default: 5", "\n\n"]


def concretise(toks, indent):
    text = "".join(GAMMA[t] for t in toks)
    if indent:
        pad = "    " * indent
        text = "\n".join((pad + ln) if ln.strip() or ln else ln for ln in text.split("\n"))
    return text


class Watchdog(BaseException):
    pass


def _alarm(signum, frame):
    raise Watchdog("wall-clock watchdog expired")


def monitored(fn, n, watchdog=None):
    """Run fn() under the loop monitor -> (done, iters, err)"""
    from harness.loopmon import MON, LoopBound

    MON.begin_call(A + B * n)
    signal.alarm(watchdog or WATCHDOG_S)
    try:
        fn()
        return True, MON.max_iters, None
    except LoopBound as e:
        return False, MON.max_iters, str(e)
    except Watchdog as e:
        return False, MON.max_iters, str(e)
    except RecursionError as e:
        return True, MON.max_iters, "raises RecursionError"
    except Exception as e:
        return True, MON.max_iters, "raises {}".format(type(e).__name__)
    finally:
        signal.alarm(0)


def entry_points(d, indent, workdir, with_doctrans):
    """-> list of (entry-point name, thunk)"""
    import cdd.docstring.emit
    import cdd.shared.docstring_parsers as dp
    import cdd.shared.docstring_utils as du

    eps = []
    parsed = {}

    def ir(doc="The doc", pdoc="the a", internal=None):
        r = {"name": "f", "type": "static", "doc": doc,
             "params": OrderedDict((("a", {"typ": "int", "doc": pdoc, "default": 5}), ("b", {"doc": pdoc}))),
             "returns": OrderedDict((("return_type", {"typ": "str", "doc": pdoc}),))}
        if internal:
            r["_internal"] = internal
        return r

    def do_parse(**kw):
        def f():
            parsed[tuple(sorted(kw.items()))] = dp.parse_docstring(d, **kw)
        return f

    eps.append(("parse", do_parse()))
    eps.append(("parse(original_whitespace)", do_parse(parse_original_whitespace=True)))
    eps.append(("parse(infer_type)", do_parse(infer_type=True, emit_default_doc=False)))
    import cdd.docstring.utils.parse_utils as pu

    eps.append(("adhoc_typ", lambda: pu.parse_adhoc_doc_for_typ(d, "a", False)))
    eps.append(("adhoc_typ(none)", lambda: pu.parse_adhoc_doc_for_typ("the a" + d + " thing", "a", True)))
    eps.append(("parse(no word wrap)", do_parse(word_wrap=False)))
    eps.append(("split", lambda: du.parse_docstring_into_header_args_footer(textwrap.dedent(d), d)))
    eps.append(("split(same)", lambda: du.parse_docstring_into_header_args_footer(d, d)))
    eps.append(("ensure_whence", lambda: du.ensure_doc_args_whence_original(textwrap.dedent(d), d)))
    for fmt in ("rest", "google", "numpydoc"):
        for lvl in (0, 2):
            eps.append(("emit(doc,{},{})".format(fmt, lvl),
                        lambda fmt=fmt, lvl=lvl: cdd.docstring.emit.docstring(ir(doc=d), fmt, indent_level=lvl)))
        eps.append(("emit(param doc,{})".format(fmt),
                    lambda fmt=fmt: cdd.docstring.emit.docstring(ir(pdoc=d), fmt, indent_level=1)))
        # the flags are part of the quantifier: the same emission asked NOT to state defaults (what doctrans always asks for) has to take
        # default statements OUT of the prose, a different path through the text
        eps.append(("emit(param doc,{},no default doc)".format(fmt),
                    lambda fmt=fmt: cdd.docstring.emit.docstring(ir(pdoc=d), fmt, indent_level=1, emit_default_doc=False)))
        eps.append(("emit(param doc,{},no types,no wrap)".format(fmt),
                    lambda fmt=fmt: cdd.docstring.emit.docstring(ir(pdoc=d), fmt, indent_level=1, emit_types=False, word_wrap=False)))
        eps.append(("emit(original_doc_str,{})".format(fmt),
                    lambda fmt=fmt: cdd.docstring.emit.docstring(
                        ir(internal={"original_doc_str": d}), fmt, indent_level=1, emit_original_whitespace=True)))

        def reemit(fmt=fmt):
            p = parsed.get(())
            if p is None:
                return
            import copy
            out = cdd.docstring.emit.docstring(copy.deepcopy(p), fmt, indent_level=2)
            p2 = dp.parse_docstring(out)                                  # the command applied to its own output
            cdd.docstring.emit.docstring(copy.deepcopy(p2), fmt, indent_level=2)
        eps.append(("emit(parsed)+reparse({})".format(fmt), reemit))
    if with_doctrans and '"""' not in d and "\\" not in d:
        from cdd.compound.doctrans import doctrans

        body = "\n".join(("    " + ln) if ln.strip() else ln for ln in d.split("\n"))
        src = ('def f(a, b=1):\n    """{body}\n    """\n    return a\n\n\n'
               'class C(object):\n    """{body}\n    """\n\n    x: int = 5\n\n'
               '    def m(self, a):\n        """{body2}\n        """\n        return a\n').format(
            body=body.lstrip(" ") if body.startswith("    ") else body,
            body2="\n".join(("    " + ln) if ln.strip() else ln for ln in body.split("\n")).lstrip(" "))
        try:
            compile(src, "<gen>", "exec")
        except SyntaxError:
            return eps
        for fmt in ("rest", "google", "numpydoc"):
            for ann in (True, False):
                # the command applied three times to its own output; every round is one monitored call whose bound is computed from
                # the file AS THAT ROUND FINDS IT (a malformed docstring may grow from round to round: that is drift, not a spin)
                for rnd_no in (1, 2, 3):
                    def dt(fmt=fmt, ann=ann, rnd_no=rnd_no):
                        p = os.path.join(workdir, "m_{}_{}.py".format(fmt, ann))
                        if rnd_no == 1:
                            with open(p, "w") as f:
                                f.write(src)
                        doctrans(filename=p, docstring_format=fmt, type_annotations=ann, no_word_wrap=None)

                    def size_of(fmt=fmt, ann=ann, rnd_no=rnd_no):
                        p = os.path.join(workdir, "m_{}_{}.py".format(fmt, ann))
                        return (len(src) if rnd_no == 1 or not os.path.exists(p) else os.path.getsize(p)) + 64
                    dt.size_of = size_of
                    eps.append(("doctrans round {}({},{})".format(rnd_no, fmt, ann), dt))
    return eps


def run_case(case, workdir, with_doctrans):
    toks, indent, text = case
    out = []
    n = len(text) + 64
    for name, thunk in entry_points(text, indent, workdir, with_doctrans):
        size = thunk.size_of() if hasattr(thunk, "size_of") else n
        done, iters, err = monitored(thunk, size, PUMP_WATCHDOG_S if toks and toks[0] == "pumped" else None)
        out.append({"ep": name, "n": size, "iters": iters, "done": done, "err": err})
    return out


def _batch(args):
    cases, with_doctrans = args
    from harness.loopmon import MON

    import io
    import contextlib

    signal.signal(signal.SIGALRM, _alarm)
    MON.start()
    work = tempfile.mkdtemp(prefix="verif-c11w-")
    res = []
    try:
        for c in cases:
            with contextlib.redirect_stdout(io.StringIO()), contextlib.redirect_stderr(io.StringIO()):
                res.append((c, run_case(c, work, with_doctrans)))
    finally:
        MON.stop()
        shutil.rmtree(work, ignore_errors=True)
    return res


def check(run, replay=None):
    work = tempfile.mkdtemp(prefix="verif-c11-")
    try:
        _check(run, replay, work)
    finally:
        shutil.rmtree(work, ignore_errors=True)


def _check(run, replay, work):
    quick = run.tier == "quick"
    run.rule = ("case = (docstring text, indent level) from TLC-enumerated token sequences over a 20-token docstring "
                "alphabet (plus seeded longer random texts); each case runs ~25 entry-point calls under the loop monitor; "
                "distinct = distinct texts; non-trivial = non-empty text")
    run.assumptions += ["loops implemented in C (str methods, re, takewhile) are observed through wall-clock time only (pumped inputs, watchdog)",
                        "iteration bound per loop activation: {} + {} * input size".format(A, B)]
    try:
        import cdd.compound.doctrans  # noqa: F401
        import cdd.docstring.emit  # noqa: F401
        import cdd.shared.docstring_parsers  # noqa: F401
    except Exception as e:
        run.violation("entry points cannot be imported: {!r}".format(e), {"kind": "import"})
        return

    if replay:
        with open(replay) as f:
            case = json.load(f)["case"]
        res = _batch(([(case["toks"], case["indent"], case["text"])], True))
        bad = [r for _, rs in res for r in rs if not r["done"]]
        if bad:
            run.violation("{} on {!r}: {}".format(bad[0]["ep"], case["text"][:80], bad[0]["err"]), case)
        else:
            run.held(case["text"])
        run.replayed += 1
        return

    # ---------------- TLC ----------------
    run.tlc("Loops", "MC_Loops_chars.cfg", constants={"MaxLen": 4 if quick else 5}, coverage=quick, timeout=3000)
    r = run.tlc("Loops", "MC_Loops_tokens.cfg", shards=NCPU, constants={"MaxTok": 2 if quick else 3}, timeout=3000)
    toks = [d["toks"] for d in r.printed]
    expected = sum(24 ** k for k in range((2 if quick else 3) + 1))
    if len(toks) != expected:
        raise MachineryError("Loops token dump produced {} sequences, expected {}".format(len(toks), expected))
    # the property formulation must reject the pinned emitter loop
    rp = run.tlc("Loops", "MC_Loops_pinned.cfg", expect_ok=False, timeout=600)
    if rp.violated != "Progress":
        raise MachineryError("Loops.tla does not reject the non-advancing emitter loop (vacuous Progress?)")
    run.extra["pinned_loop_rejected_by_tlc"] = True
    run.exhaustive = True

    # ---------------- R: concretise and run ----------------
    rnd = random.Random(run.seed)
    cases = []
    for ts in toks:
        for indent in (0, 1, 2):
            cases.append((ts, indent, concretise(ts, indent)))
    frag = list(GAMMA.values()) + EXTRA
    for _ in range(150 if quick else 4000):
        k = rnd.randint(3, 12)
        text = "".join(rnd.choice(frag) for _ in range(k))
        cases.append((["random"], 0, text))
    # pumped inputs (Loops.tla, Mode = "pumped"): head + PUMP_RUN copies of one token + tail, at two indent levels; no doctrans
    pump_k = 4 if quick else 6
    rq = run.tlc("Loops", "MC_Loops_pumped.cfg", shards=NCPU, constants={"PumpK": pump_k}, timeout=3000)
    doc_tokens = [t for t in GAMMA if not t.endswith("_cut")]
    contexts = [[], ["rparam"], ["rreturn"], ["gargs", "gitem"], ["nparams", "dashes", "nitem", "NL", "IND"]]
    shapes = [(c, h, t, tl) for c in contexts for h in GAMMA for t in doc_tokens for tl in ([], ["word"])]
    if {tuple(c + [h] + [t] * pump_k + tl) for c, h, t, tl in shapes} != {tuple(d["toks"]) for d in rq.printed}:
        raise MachineryError("the pumped inputs of Loops.tla ({}) are not the ones the harness concretises ({})".format(
            len({tuple(d["toks"]) for d in rq.printed}), len(shapes)))
    n_plain = len(cases)
    if quick:        # the model covers every shape; the quick replay keeps the truncated heads and a third of the whole ones
        keep = {h for h in GAMMA if h.endswith("_cut")} | {"word", "NL", "defaults", "colon", "tick", "gitem", "nitem"}
        shapes = [x for x in shapes if x[1] in keep]
    for c, h, t, tl in shapes:
        for indent in ((0,) if quick else (0, 1)):
            body = "".join(GAMMA[x] for x in c) + GAMMA[h] + GAMMA[t] * PUMP_RUN + "".join(GAMMA[x] for x in tl)
            pad = "    " * indent
            cases.append((["pumped", "+".join(c), h, t, "+".join(tl)], indent,
                          "\n".join((pad + ln) if ln.strip() or ln else ln for ln in body.split("\n")) if indent else body))
    run.extra["pumped_inputs"] = len(cases) - n_plain
    # doctrans costs ~0.35 s per case (three whole-file runs), everything else ~0.01 s: it runs on a seeded third of the cases in the
    # quick tier; in the thorough tier on every sequence of <= 2 tokens, every random text and a seeded quarter of the 3-token ones
    flags = [False if c[0][:1] == ["pumped"] else ((i % 3 == run.seed % 3) if quick else (len(c[0]) <= 2 or i % 4 == run.seed % 4))
             for i, c in enumerate(cases)]
    batches = []
    step = 12
    for i in range(0, len(cases), step):
        chunk = cases[i:i + step]
        batches.append(([c for c, f in zip(chunk, flags[i:i + step]) if f], True))
        batches.append(([c for c, f in zip(chunk, flags[i:i + step]) if not f], False))
    batches = [b for b in batches if b[0]]
    records = []
    worst = (0.0, None)
    for res in pmap(_batch, batches, chunksize=2):
        for (ts, indent, text), rs in res:
            run.replayed += 1
            bad = [r for r in rs if not r["done"]]
            if bad:
                run.violation("{} does not terminate within its bound on {!r} (indent {}): {}".format(
                    bad[0]["ep"], text[:120], indent, bad[0]["err"]),
                    {"toks": ts, "indent": indent, "text": text}, key=text)
            else:
                run.held(text if text.strip() else None)
            for r in rs:
                records.append({"tid": "{}|{}|{}".format(len(records), r["ep"], indent), "n": r["n"],
                                "iters": r["iters"], "done": r["done"]})
                ratio = r["iters"] / float(r["n"])
                if ratio > worst[0]:
                    worst = (ratio, {"ep": r["ep"], "text": text[:80], "iters": r["iters"], "n": r["n"]})
    run.extra["calls_monitored"] = len(records)
    run.extra["worst_iterations_per_input_char"] = worst[1]
    run.sample({"toks": cases[len(toks)][0], "text": cases[len(toks)][2], "indent": cases[len(toks)][1]})

    # ---------------- V: TLC validates the recorded loop observations ----------------
    recs = list(records)
    recs.append({"tid": "CORRUPT-spin", "n": 10, "iters": A + B * 10 + 1, "done": False})
    tf = os.path.join(work, "loops.json")
    with open(tf, "w") as f:
        json.dump(recs, f)
    r = run.tlc("TraceLoops", "MC_TraceLoops.cfg", workers=1, env={"TRACE_FILE": tf},
                constants={"A": A, "B": B}, timeout=3000)
    rejected = {d["reject"] for d in r.printed if isinstance(d, dict) and "reject" in d}
    if "CORRUPT-spin" not in rejected:
        raise MachineryError("binding demonstration failed: TraceLoops accepted a spinning call")
    rejected.discard("CORRUPT-spin")
    run.extra["trace_records_rejected"] = len(rejected)
    not_done = sum(1 for r in records if not r["done"])
    if len(rejected) != not_done:
        run.model_drift("TraceLoops rejected {} records, the monitor aborted {}".format(len(rejected), not_done))
