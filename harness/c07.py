"""C07 -- doctrans changes only docstrings and annotations, never the program.

TLC: DocTrans.tla -- the doctrans pipeline as one action per step with a fault enabled before every step: SameProgram,
     OthersUntouched, AtomicOnError, SingleWrite over all programs of 1..2 definitions (function / async / method / nested /
     class x 8 signature shapes x docstring none/rest/google/numpydoc x block or one-line body) x 6 configurations x 7 fault
     points (~102k behaviours).
R+V: every behaviour (seeded sample in quick) is rendered to real source with comments and unrelated statements around,
     the real doctrans runs in-process (faults are injected by wrapping the pipeline's callees), and the result is judged
     by the statement's own predicates on the real file: still valid Python; AST identical once docstrings, parameter /
     return / variable annotations and type comments are erased; all comments still present in order; every line that is
     not a definition header, a docstring or an annotated assignment byte-identical; on failure the file byte-identical;
     at most one write, and it is the last file effect (audit events).
"""

import ast
import contextlib
import io
import json
import os
import random
import shutil
import tempfile
import tokenize

from harness.common import NCPU, MachineryError, pmap

DOC = {
    "rest": ["Do the thing", "", ":param a: the a", ":type a: ```int```", "", ":param b: the b", ":type b: ```str```", "",
             ":return: the result", ":rtype: ```str```"],
    "google": ["Do the thing", "", "Args:", "  a (int): the a", "  b (str): the b", "", "Returns:", "  str: the result"],
    "numpydoc": ["Do the thing", "", "Parameters", "----------", "a : int", "    the a", "b : str", "    the b", "", "Returns", "-------",
                 "str", "    the result"],
}
DOC["types_only"] = [":type a: ```int```", ":type b: ```str```", "", ":rtype: ```str```"]
CLASSDOC = {
    "rest": ["Hold things", "", ":cvar x: the x", ":cvar y: the y"],
    "google": ["Hold things", "", "Attributes:", "  x (int): the x", "  y (str): the y"],
    "numpydoc": ["Hold things", "", "Attributes", "----------", "x : int", "    the x", "y : str", "    the y"],
}


def header(d, name, ind):
    sig = d["sig"]
    self_ = "self, " if d["kind"] == "method" else ""
    kw = "async def" if d["kind"] == "async" else "def"
    if sig == "plain":
        return ["{}{} {}({}a, b):".format(ind, kw, name, self_)]
    if sig == "defaults":
        return ["{}{} {}({}a, b='x'):".format(ind, kw, name, self_)]
    if sig == "annotated":
        return ["{}{} {}({}a: int, b: str = 'x') -> str:".format(ind, kw, name, self_)]
    if sig == "varargs":
        return ["{}{} {}({}a, b=1, *args, **kwargs):".format(ind, kw, name, self_)]
    if sig == "kwonly":
        return ["{}{} {}({}a, *, b='x', c=3):".format(ind, kw, name, self_)]
    if sig == "posonly":
        return ["{}{} {}({}a=0, b='x', /, c=\" \", *, d=4):".format(ind, kw, name, self_)]
    if sig == "odd_defaults":
        return ["{}{} {}({}a, b=\"    \", c='  -  ', d=(1, [2]), *, e=\"x    y: z\", f={{'k': ')'}}):".format(ind, kw, name, self_)]
    if sig == "esc_backslash":
        return ["{}{} {}({}a, b='x', sep=\"\\\\\"):".format(ind, kw, name, self_)]
    if sig == "comment_apostrophe":
        return ["{}{} {}(".format(ind, kw, name), "{}    {}a,  # the caller's first one".format(ind, self_), "{}    b='x',".format(ind),
                "{}):".format(ind)]
    if sig == "multiline":
        return ["{}{} {}(".format(ind, kw, name), "{}    {}a,".format(ind, self_), "{}    b='x',".format(ind), "{}):".format(ind)]
    if sig == "multiline_comment":
        return ["{}{} {}(".format(ind, kw, name), "{}    {}a,  # the first one".format(ind, self_), "{}    b='x',".format(ind),
                "{}):".format(ind)]
    if sig == "decorated_call":
        return ["{}@decorate_with(maxsize=None)".format(ind), "{}{} {}({}a: int, b: str = 'x') -> str:".format(ind, kw, name, self_)]
    return ["{}@decorate".format(ind), "{}{} {}({}a, b='x') -> str:".format(ind, kw, name, self_)]


def definition(d, name, ind=""):
    lines = []
    if d["kind"] == "class":
        if d["sig"] == "decorated":
            lines.append(ind + "@decorate")
        lines.append("{}class {}(Base):".format(ind, name))
        if d["doc"] != "none":
            lines.append('{}    """'.format(ind))
            lines += [(ind + "    " + ln) if ln else "" for ln in CLASSDOC[d["doc"]]]
            lines.append('{}    """'.format(ind))
            lines.append("")
        lines += ["{}    x: int = 1  # keep me".format(ind), "{}    y: str = 'q'".format(ind), "",
                  "{}    def helper(self, q=2):".format(ind), "{}        return q  # inner comment".format(ind)]
        return lines
    if d["kind"] == "method":
        inner = definition(dict(d, kind="function_as_method"), name, ind + "    ")
        return ["{}class Holder{}(object):".format(ind, name), "{}    ATTR = 1".format(ind), ""] + inner
    if d["kind"] == "nested":
        inner = definition(dict(d, kind="function"), name, ind + "    ")
        return ["{}def outer_{}(z):".format(ind, name), "{}    # before the nested one".format(ind)] + inner + \
               ["{}    return {}".format(ind, name)]
    dd = dict(d)
    if d["kind"] == "function_as_method":
        dd["kind"] = "method"
    h = header(dd, name, ind)
    if d["body"] == "oneline":
        h[-1] = h[-1] + " return a"
        return h
    lines = h
    if d["doc"] == "blank":
        lines.append('{}    """ """'.format(ind))
    elif d["doc"] != "none":
        lines.append('{}    """'.format(ind))
        lines += [(ind + "    " + ln) if ln else "" for ln in DOC[d["doc"]]]
        lines.append('{}    """'.format(ind))
    if d["body"] == "doconly":
        return lines
    lines += ["{}    c = [a, b]  # trailing comment".format(ind), "{}    if c:".format(ind), "{}        c.append(1)".format(ind),
              "{}    return str(c)".format(ind)]
    return lines


def render(prog):
    lines = ["# -*- coding: utf-8 -*-", '"""Module docstring"""', "import os  # first comment", "", "", "def decorate(f):", "    # helper",
             "    return f", "", "", "def decorate_with(maxsize=None):", "    return decorate", "", "", "class Base(object):", "    pass", "", "", "CONSTANT = {'a': 1,", "            'b': 2}   # odd spacing", "", ""]
    for k, d in enumerate(prog):
        lines += definition(d, "target{}".format(k))
        lines += ["", "", "# between definitions {}".format(k), "VALUE_{} = os.sep".format(k), "", ""]
    lines += ["if __name__ == '__main__':", "    print(CONSTANT)  # last comment"]
    return "\n".join(lines) + "\n"


class Eraser(ast.NodeTransformer):
    """docstrings, parameter / return / variable annotations and type comments erased"""

    def _strip_doc(self, node):
        if node.body and isinstance(node.body[0], ast.Expr) and isinstance(getattr(node.body[0], "value", None), ast.Constant) \
                and isinstance(node.body[0].value.value, str):
            node.body = node.body[1:] or [ast.Pass()]
        return node

    def visit_FunctionDef(self, node):
        self.generic_visit(node)
        node.returns = None
        node.type_comment = None
        a = node.args
        for arg in a.posonlyargs + a.args + a.kwonlyargs + [x for x in (a.vararg, a.kwarg) if x]:
            arg.annotation = None
            arg.type_comment = None
        return self._strip_doc(node)

    visit_AsyncFunctionDef = visit_FunctionDef

    def visit_ClassDef(self, node):
        self.generic_visit(node)
        return self._strip_doc(node)

    def visit_Module(self, node):
        self.generic_visit(node)
        return self._strip_doc(node)

    def visit_AnnAssign(self, node):
        self.generic_visit(node)
        if node.value is None:
            return ast.Expr(value=ast.Constant(value="<bare annotation of {}>".format(ast.dump(node.target))))
        return ast.Assign(targets=[node.target], value=node.value, type_comment=None)

    def visit_Assign(self, node):
        self.generic_visit(node)
        node.type_comment = None
        return node


def erased(src):
    tree = Eraser().visit(ast.parse(src, type_comments=True))
    for n in ast.walk(tree):
        if isinstance(n, ast.Pass):
            pass
    return ast.dump(ast.fix_missing_locations(tree), include_attributes=False)


def comments(src):
    out = []
    for tok in tokenize.generate_tokens(io.StringIO(src).readline):
        if tok.type == tokenize.COMMENT and not tok.string.startswith("# type:"):
            out.append(tok.string.strip())
    return out


def protected_lines(src):
    """the lines that are neither part of a definition header, nor of a docstring, nor of an annotated assignment"""
    tree = ast.parse(src, type_comments=True)
    skip = set()
    src_lines = src.split("\n")
    for n in ast.walk(tree):
        if isinstance(n, (ast.FunctionDef, ast.AsyncFunctionDef, ast.ClassDef)):
            # the header runs from the `def` / `class` line to the line whose code ends with the colon
            sub = []
            if not isinstance(n, ast.ClassDef):
                a = n.args
                sub = a.posonlyargs + a.args + a.kwonlyargs + [x for x in (a.vararg, a.kwarg) if x] + a.defaults \
                    + [x for x in a.kw_defaults if x] + ([n.returns] if n.returns else [])
            else:
                sub = list(n.bases) + [k.value for k in n.keywords]
            end = max([n.lineno] + [getattr(x, "end_lineno", n.lineno) for x in sub])
            while end < n.body[0].lineno and not src_lines[end - 1].split(" #")[0].rstrip().endswith(":"):
                end += 1
            if n.body[0].lineno == n.lineno:
                end = n.lineno
            for ln in range(n.lineno, end + 1):
                skip.add(ln)
        if isinstance(n, (ast.FunctionDef, ast.AsyncFunctionDef, ast.ClassDef, ast.Module)) and n.body:
            b = n.body[0]
            if isinstance(b, ast.Expr) and isinstance(getattr(b, "value", None), ast.Constant) and isinstance(b.value.value, str):
                for ln in range(b.lineno, b.end_lineno + 1):
                    skip.add(ln)
        if isinstance(n, ast.AnnAssign) or (isinstance(n, ast.Assign) and n.type_comment):
            for ln in range(n.lineno, n.end_lineno + 1):
                skip.add(ln)
    lines = src.split("\n")
    return [ln for k, ln in enumerate(lines, 1) if k not in skip and ln.strip()]


class Injected(Exception):
    pass


def run_case(args):
    case, workroot = args
    from harness import effects
    import cdd.compound.doctrans as dt

    d = tempfile.mkdtemp(prefix="c07-", dir=workroot)
    res = {"case": case, "fails": []}
    try:
        src = render(case["prog"])
        compile(src, "<generated>", "exec")
        p = os.path.join(d, "module_under_test.py")
        with open(p, "w") as f:
            f.write(src)
        failat = case["failat"]
        saved = {}
        names = {2: "ast_parse", 3: "DocTrans", 4: "cmp_ast", 5: "cst_parse", 6: "doctransify_cst"}
        reached = [False]

        def boom(*a, **kw):
            reached[0] = True
            raise Injected("fault injected at step {}".format(failat))

        if failat in names:
            saved[names[failat]] = getattr(dt, names[failat])
            setattr(dt, names[failat], boom)
        elif failat == 1:
            real_open = open

            def failing_open(file, mode="r", *a, **kw):
                if os.path.realpath(str(file)) == os.path.realpath(p) and "r" in mode:
                    reached[0] = True
                    raise Injected("fault injected at step 1")
                return real_open(file, mode, *a, **kw)
            saved["open"] = None
            dt.open = failing_open
        rec = effects.Recorder(outputs=[p])
        raised = None
        try:
            with effects.recording(rec):
                try:
                    with contextlib.redirect_stdout(io.StringIO()), contextlib.redirect_stderr(io.StringIO()):
                        dt.doctrans(filename=p, docstring_format=case["cfg"]["style"], type_annotations=case["cfg"]["annotations"],
                                    no_word_wrap=None)
                except Injected:
                    raised = "injected"
                except Exception as e:  # noqa
                    raised = "{}: {}".format(type(e).__name__, str(e)[:80])
        finally:
            for k, v in saved.items():
                if k == "open":
                    del dt.open
                else:
                    setattr(dt, k, v)
        with open(p) as f:
            after = f.read()
        res["after"] = after
        res["raised"] = raised
        writes = [e for e in rec.events if e["k"] in ("openw", "remove", "rename", "mkdir")]
        if any(e["a"] != "output" for e in writes):
            res["fails"].append(("SingleWrite", "doctrans touched something other than the file: {}".format(
                [dd for e, dd in zip(rec.events, rec.detail) if e["k"] in ("openw", "remove", "rename", "mkdir") and e["a"] != "output"][:2])))
        if len([e for e in writes if e["k"] == "openw"]) > 1:
            res["fails"].append(("SingleWrite", "the file was opened for writing {} times".format(len(writes))))
        if raised is not None:
            if after != src:
                res["fails"].append(("AtomicOnError", "doctrans failed ({}) but the file is no longer byte-identical".format(raised)))
            if raised != "injected":
                # the statement allows a conversion to fail as long as the file is left as it was: diagnostic only
                res["gave_up"] = raised
            return res
        if failat and reached[0]:
            res["fails"].append(("AtomicOnError", "the injected fault was swallowed"))
        try:
            ast.parse(after)
        except SyntaxError as e:
            res["fails"].append(("ValidPython", "the file is no longer valid Python: {}".format(e)))
            return res
        if erased(after) != erased(src):
            res["fails"].append(("SameProgram", "the program changed beyond docstrings and annotations"))
        cb, ca = comments(src), comments(after)
        it = iter(ca)
        if not all(c in it for c in cb):
            res["fails"].append(("CommentsKept", "comments lost or reordered: {}".format([c for c in cb if c not in ca][:3])))
        pb, pa = protected_lines(src), protected_lines(after)
        if pb != pa:
            diff = next(((x, y) for x, y in zip(pb, pa) if x != y), (pb[len(pa):][:1], pa[len(pb):][:1]))
            res["fails"].append(("OthersUntouched", "a line that is neither a definition header nor a docstring changed: {!r} -> {!r}".format(*diff)))
        return res
    finally:
        shutil.rmtree(d, ignore_errors=True)


def _batch(items):
    return [run_case(a) for a in items]


CLAUSE_FINDING = {"ValidPython": "doctrans_oneline_def_corrupted", "SameProgram": "doctrans_oneline_def_corrupted",
                  "OthersUntouched": "doctrans_oneline_def_corrupted", "CommentsKept": "doctrans_header_comment_lost"}


def check(run, replay=None):
    work = tempfile.mkdtemp(prefix="verif-c07-")
    try:
        _check(run, replay, work)
    finally:
        shutil.rmtree(work, ignore_errors=True)


def _check(run, replay, work):
    from harness import conv

    run.rule = ("behaviour = program of 1..2 definitions (function / async / method / nested / class x 8 signature shapes x docstring "
                "none/rest/google/numpydoc x block or one-line body) with comments and unrelated statements around x target style x "
                "type_annotations x fault point 0..6; distinct = distinct behaviours")
    run.assumptions += ["'not a definition header or a docstring' excludes annotated assignments too (variable annotations may move)",
                        "faults are injected by wrapping the callees of cdd.compound.doctrans.doctrans (no source hooks)"]
    quick = run.tier == "quick"
    run.tlc("DocTrans", "MC_DocTrans.cfg", workers=NCPU, timeout=900)
    r = run.tlc("DocTrans", "MC_DocTrans_dump.cfg", shards=NCPU, timeout=1800, constants={"Enabled": conv.enabled_constant(run)})
    cases = r.printed
    missing = sorted(set(run.known) - {d for c in cases for d in c["devs"]})
    if missing:
        raise MachineryError("listed C07 findings {} are unreachable in DocTrans.tla".format(missing))
    if replay:
        with open(replay) as f:
            want = json.load(f)["case"]["case"]
        cases = [c for c in cases if c["prog"] == want["prog"] and c["cfg"] == want["cfg"] and c["failat"] == want["failat"]]
    elif quick:
        rnd = random.Random(run.seed)
        one = [c for c in cases if len(c["prog"]) == 1 and c["failat"] == 0]
        rest = [c for c in cases if not (len(c["prog"]) == 1 and c["failat"] == 0)]
        cases = rnd.sample(one, min(900, len(one))) + rnd.sample(rest, 1500)
    else:
        run.exhaustive = True
        rnd = random.Random(run.seed)
        two = [c for c in cases if len(c["prog"]) == 2]
        cases = [c for c in cases if len(c["prog"]) == 1] + rnd.sample(two, min(30000, len(two)))
    items = [(c, work) for c in cases]
    tri = {}
    gave_up = {}
    n = 0
    for rb in pmap(_batch, [items[k:k + 16] for k in range(0, len(items), 16)], chunksize=1):
        for res in rb:
            case = res["case"]
            n += 1
            run.replayed += 1
            key = json.dumps([case["prog"], case["cfg"], case["failat"]], sort_keys=True)
            for d in case["devs"]:
                run.trigger(d)
            label = "{} style={} annotations={} failat={}".format(
                "+".join("{}/{}/{}/{}".format(d["kind"], d["sig"], d["doc"], d["body"]) for d in case["prog"]),
                case["cfg"]["style"], case["cfg"]["annotations"], case["failat"])
            if res.get("gave_up") and not res["fails"]:
                gave_up[(case["prog"][0]["body"], case["prog"][0]["doc"], res["gave_up"][:40])] = \
                    gave_up.get((case["prog"][0]["body"], case["prog"][0]["doc"], res["gave_up"][:40]), 0) + 1
                if not any(d["doc"] == "blank" or (d["body"] == "doconly" and d["doc"] == "types_only")
                           or d["sig"] in ("esc_backslash", "comment_apostrophe") for d in case["prog"]):       # DocTrans!MayGiveUp
                    run.model_drift("DocTrans.tla completes on {} but doctrans gives up ({}); the file is untouched".format(label, res["gave_up"]))
            if not res["fails"]:
                run.held(key)
            else:
                unexplained = [(c, m) for c, m in res["fails"] if CLAUSE_FINDING.get(c) not in case["devs"]
                               and not (c == "ValidPython" and "doctrans_async_stub_loses_its_body" in case["devs"] and "expected an indented block" in m)]
                if unexplained:
                    run.violation("{}: {}".format(label, "; ".join(m for _, m in unexplained[:3])),
                                  {"case": case, "after": res.get("after"), "raised": res.get("raised")}, key=key)
                    k2 = (unexplained[0][0], case["prog"][0]["kind"], case["prog"][0]["sig"], case["prog"][0]["doc"], unexplained[0][1][:60])
                    tri[k2] = tri.get(k2, 0) + 1
                else:
                    for c, m in res["fails"]:
                        fid = CLAUSE_FINDING.get(c)
                        if fid not in case["devs"]:
                            fid = "doctrans_async_stub_loses_its_body"
                        run.finding(fid, "{}: {}".format(label, m[:200]), case={"case": case}, key=key)
            if len(run.samples) < 2 and res.get("after") and not res["fails"] and n % 307 == 1:
                run.sample({"prog": case["prog"], "cfg": case["cfg"], "after": res["after"][:600]})
    run.extra["conversions_that_gave_up_with_the_file_untouched"] = {"/".join(k): v for k, v in sorted(gave_up.items())}
    if os.environ.get("VERIF_TRIAGE"):
        agg = {}
        for k, v in tri.items():
            agg[(k[0], k[2], k[4])] = agg.get((k[0], k[2], k[4]), 0) + v
        for k, v in sorted(agg.items(), key=lambda kv: -kv[1])[:40]:
            print("TRIAGE", v, k)
