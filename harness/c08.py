"""C08 -- one conversion round reaches a fixpoint.

TLC: Convert.tla (Mode = "fix") -- the action property Fix (RT_f . RT_f = RT_f) on the ideal rules over the whole
     modelled domain (untyped entries, trigger-word descriptions, non-suffix defaults included), and on the as-built
     rules with the listed C08 deviations (cur = Top where one fires).
R:   every dumped behaviour (format repeated 2..4 times x interface) is replayed through the real code; verdict: the
     real IR after round n+1 equals the real IR after round n (n >= 1), exactly.  A format that cannot emit the
     interface at all on round 1 is not a fixpoint question.
"""

import json
import random

from harness import gamma as G

from harness import chain, conv
from harness.common import NCPU, MachineryError

FIX_FMTS = ('{"class", "pydantic", "function", "argparse", "docstring", "json_schema", "sqlalchemy", "sqlalchemy_table", '
            '"docstring_google", "docstring_numpydoc"}')


def check(run, replay=None):
    G.OPENERS[0] = G.DOC_OPENERS      # (inherited by the forked replay workers)
    run.rule = ("behaviour = (format repeated 2..4 times, interface of 1..2 parameters from the hostile domain: 15 type shapes "
                "incl. untyped, compatible defaults in any position, plain and trigger-word descriptions); distinct = distinct "
                "(format, rounds, interface); every round is a real emit -> render -> re-read -> parse")

    def finding_of(case, res):
        return list(case["devs"])

    if replay:
        rec = chain.replay_one(run, replay)
        chain.replay(run, [rec["case"]], "fix", finding_of)
        return
    quick = run.tier == "quick"
    run.tlc("Convert", "MC_Convert_fix_ideal.cfg", constants={"MaxLen": 4, "MaxParams": 2, "FixFmts": FIX_FMTS},
            workers=NCPU, timeout=3000)
    enabled = conv.enabled_constant(run)
    r = run.tlc("Convert", "MC_Convert_fix_dump.cfg", shards=10, timeout=3000,
                constants={"MaxLen": 3 if quick else 4, "MaxParams": 2, "Enabled": enabled, "FixFmts": FIX_FMTS})
    cases = [c for c in r.printed if len(c["hist"]) >= 2]
    seen = {d for c in cases for d in c["devs"]}
    missing = sorted(set(run.known) - seen)
    if missing:
        raise MachineryError("listed C08 findings {} are unreachable in Convert.tla".format(missing))
    # keep the longest behaviour per (format, interface): it contains the shorter ones as prefixes
    best = {}
    for c in cases:
        k = json.dumps([c["hist"][0], c["i"]], sort_keys=True)
        if k not in best or len(c["hist"]) > len(best[k]["hist"]):
            best[k] = c
    cases = list(best.values())
    if quick and len(cases) > 6000:
        one = [c for c in cases if len(c["i"]["params"]) == 1]
        two = [c for c in cases if len(c["i"]["params"]) == 2]
        # stratified: every (format, type, default kind, description kind of the first parameter, return entry) stratum of the two-parameter
        # behaviours is represented before the rest of the budget is spent at random (a growing domain must not starve the rare strata)
        rnd = random.Random(run.seed)
        strata = {}
        for c in two:
            p = c["i"]["params"][0]
            strata.setdefault((c["hist"][0], p["typ"], p["def"], p["doc"], c["i"]["ret"]["doc"]), []).append(c)
        picked = [rnd.choice(v) for _, v in sorted(strata.items())]
        ids = {id(c) for c in picked}
        rest = [c for c in two if id(c) not in ids]
        cases = one + picked + rnd.sample(rest, max(0, min(len(rest), 7000 - len(one) - len(picked))))
        run.extra["sample"] = {"one_parameter": len(one), "strata_of_two": len(picked), "cases": len(cases)}
    else:
        run.exhaustive = True

    def wrap(case, res):
        # a raise on round 1 is not a fixpoint question (C02 judges it)
        return finding_of(case, res)

    chain.replay(run, cases, "fix", wrap)
