"""C03 -- any chain of format conversions preserves the interface.

TLC: Convert.tla (Mode = "chain") -- PreservedIdeal and Commute on the ideal rules for every chain of <= 5 hops over
     {class, pydantic, function, argparse, docstring}; Preserved on the as-built rules (cur = Top once a listed
     single-hop deviation of C01/C02 fires).
R:   every dumped chain (length 2..3 exhaustively, 4..5 from -simulate) x interface is replayed hop by hop through the
     real emit -> render -> re-read -> parse; verdict: the core (names, order, types, defaults) of the real IR after
     every hop equals the initial core.
"""

import json
import random

from harness import gamma as G

from harness import chain, conv
from harness.common import NCPU, MachineryError, load_known_findings


def single_hop_findings():
    k = {}
    k.update(load_known_findings("C01"))
    k.update(load_known_findings("C02"))
    return k


def check(run, replay=None):
    G.OPENERS[0] = G.DOC_OPENERS      # (inherited by the forked replay workers)
    # in a chain the ORDER of a Literal's members is part of the type (nothing on the way may sort or de-duplicate them): members written
    # in descending order
    G.TYP["Lit"], G.LIT_MEMBERS["Lit"] = "Literal['b', 'a']", ["b", "a"]
    run.rule = ("behaviour = (chain of 2..5 formats, interface of 1..2 parameters in the common representable domain: scalar / "
                "Optional[scalar] / Literal types, every parameter has a default); distinct = distinct (chain, interface)")
    run.assumptions += ["inside a chain the code formats are used with emit_default_doc=False and ReST docstrings, the "
                        "docstring hop with emit_default_doc=True, emit_types=True (Convert!CfgOf)"]
    # a chain inherits the single-hop findings of C01/C02: they are listed under C03 as `inherits`
    single = single_hop_findings()
    enabled = conv.enabled_constant(run, extra=single.keys())

    def finding_of(case, res):
        # the listed C03 finding covers exactly the chains on which a single-hop deviation fires in the model
        return ["inherits_single_hop_deviation"] if case["devs"] else []

    if replay:
        rec = chain.replay_one(run, replay)
        chain.replay(run, [rec["case"]], "chain", finding_of)
        return
    quick = run.tier == "quick"
    run.tlc("Convert", "MC_Convert_chain_ideal.cfg", constants={"MaxLen": 5, "MaxParams": 2}, workers=NCPU, timeout=3000)
    r = run.tlc("Convert", "MC_Convert_chain_dump.cfg", shards=5, timeout=3000,
                constants={"MaxLen": 3, "MaxParams": 1 if quick else 2, "Enabled": enabled})
    cases = [c for c in r.printed if len(c["hist"]) >= 2]
    if not cases:
        raise MachineryError("Convert chain dump produced no behaviours")
    if not any(c["devs"] for c in cases):
        raise MachineryError("no chain reaches a listed single-hop deviation -- the as-built chain model is vacuous")
    # longer chains: TLC random behaviours of length 4..5
    rs = run.tlc("Convert", "MC_Convert_chain_dump.cfg", workers=1, simulate="num={}".format(300 if quick else 5000),
                 depth=6, seed=run.seed + 1, timeout=3000,
                 constants={"MaxLen": 5, "MaxParams": 2, "Enabled": enabled})
    long_cases = {json.dumps([c["hist"], c["i"]], sort_keys=True): c for c in rs.printed if len(c["hist"]) >= 4}
    cases += list(long_cases.values())
    if quick and len(cases) > 6000:
        rnd = random.Random(run.seed)
        cases = rnd.sample(cases, 6000)
    run.exhaustive = not quick
    run.extra["chains_len_ge4"] = len(long_cases)
    chain.replay(run, cases, "chain", finding_of)
