"""Loop monitor: sys.monitoring JUMP events on every loop of the package (no source hooks).

For every activation (frame) of a package function, the number of times each loop back-edge is taken is
counted.  A count above `bound` raises LoopBound *inside the monitored code*, which aborts the call: this
is the machine-independent reading of "returns or raises within time proportional to the size of its
input" (wall clock is only a watchdog).
"""

import os
import sys

from harness.common import REPO

TOOL = 3
PKG_PREFIX = os.path.join(os.path.realpath(REPO), "cdd") + os.sep
TESTS_PREFIX = os.path.join(PKG_PREFIX, "tests") + os.sep


class LoopBound(BaseException):
    """A single loop activation exceeded its iteration bound (BaseException: `except Exception` cannot swallow it)"""


class Monitor(object):
    def __init__(self):
        self.counts = {}
        self.bound = 1 << 30
        self.max_iters = 0
        self.max_site = None
        self.sites = set()
        self.active = False
        self._interesting = {}

    def interesting(self, code):
        r = self._interesting.get(code)
        if r is None:
            fn = code.co_filename
            try:
                fn = os.path.realpath(fn)
            except Exception:
                pass
            r = fn.startswith(PKG_PREFIX) and not fn.startswith(TESTS_PREFIX)
            self._interesting[code] = r
        return r

    def on_jump(self, code, offset, dest):
        if dest >= offset:
            return None
        if not self.interesting(code):
            return sys.monitoring.DISABLE
        frame = sys._getframe(1)
        key = (id(frame), code, dest)
        c = self.counts.get(key, 0) + 1
        self.counts[key] = c
        if c > self.max_iters:
            self.max_iters = c
            self.max_site = (code.co_filename, code.co_name, frame.f_lineno)
        if c == 1:
            self.sites.add((code.co_filename, code.co_name, dest))
        if c > self.bound:
            site = "{}:{} in {}".format(os.path.relpath(code.co_filename, REPO), frame.f_lineno, code.co_name)
            raise LoopBound("loop at {} iterated {} times in one activation (bound {})".format(site, c, self.bound))
        return None

    def on_start(self, code, offset):
        if not self.interesting(code):
            return sys.monitoring.DISABLE
        # a new activation: forget counts of a dead frame that had the same id
        fid = id(sys._getframe(1))
        for k in [k for k in self.counts if k[0] == fid and k[1] is code]:
            del self.counts[k]
        return None

    def start(self):
        if self.active:
            return
        mon = sys.monitoring
        if mon.get_tool(TOOL) is None:
            mon.use_tool_id(TOOL, "verif-loopmon")
        mon.register_callback(TOOL, mon.events.JUMP, self.on_jump)
        mon.register_callback(TOOL, mon.events.PY_START, self.on_start)
        mon.set_events(TOOL, mon.events.JUMP | mon.events.PY_START)
        self.active = True

    def stop(self):
        if not self.active:
            return
        mon = sys.monitoring
        mon.set_events(TOOL, 0)
        mon.register_callback(TOOL, mon.events.JUMP, None)
        mon.register_callback(TOOL, mon.events.PY_START, None)
        mon.free_tool_id(TOOL)
        self.active = False

    def begin_call(self, bound):
        self.counts.clear()
        self.bound = bound
        self.max_iters = 0
        self.max_site = None


MON = Monitor()
