"""C05 -- SQLAlchemy class, Table and hybrid forms round-trip and agree.

TLC: Sql.tla -- ExactlyOnePK, RoundTrip and Agree on the ideal rules; RoundTripOrDeviation as built.
R:   every dumped behaviour is emitted by the real emitter of the variant, rendered, re-read and parsed by the matching
     real parser; verdicts: re-parsed columns == gamma(Norm) (names, order, types incl. nullability, defaults, descriptions
     with their [PK]/[FK] markers); the rendered source contains exactly one `primary_key=True`; the re-parsed results of
     the variants of one interface are equal.
"""

import json
import random

from harness import conv
from harness import gamma as G
from harness.common import NCPU, MachineryError, pmap


def check(run, replay=None):
    G.NAME_COLS[0] = [0, 2, 3, 4]                 # identifiers that are not primary-key candidates by name (column 4: a leading underscore)
    G.ALLOW_KEYS[0] = {"server_default"}
    G.OPENERS[0] = G.SQL_OPENERS
    run.rule = ("case = (variant, docstring style, force_pk_id) x interface of 1..2 SQL-representable columns (11 type shapes x "
                "defaults x plain/[PK]/[FK] descriptions, at most one [PK]); distinct = distinct (cfg, interface)")
    run.assumptions += ["column names are drawn from identifiers that are not primary-key candidates by name (`*_id`, `*_name`, `id`)",
                        "interface-level prose is not compared (the Table form has nowhere to carry it)"]
    if replay:
        with open(replay) as f:
            rec = json.load(f)["case"]
        cases = [rec["case"]]
    else:
        quick = run.tier == "quick"
        run.tlc("Sql", "MC_Sql_ideal.cfg", constants={"MaxParams": 2}, workers=NCPU, timeout=3000)
        cases = conv.dump_cases(run, "Sql", "MC_Sql_dump.cfg", {"MaxParams": 2}, shards=9)
        if quick:
            one = [c for c in cases if len(c["i"]["params"]) == 1]
            two = [c for c in cases if len(c["i"]["params"]) == 2]
            # keep the variants of one interface together so that Agree can be judged
            rnd = random.Random(run.seed)
            keys = sorted({json.dumps(c["i"], sort_keys=True) for c in two})
            chosen = set(rnd.sample(keys, min(200, len(keys))))
            cases = one + [c for c in two if json.dumps(c["i"], sort_keys=True) in chosen]
        else:
            run.exhaustive = True
    items = [(c, run.seed, "format") for c in cases]
    results = []
    for rb in pmap(conv._batch, [items[k:k + 64] for k in range(0, len(items), 64)], chunksize=1):
        results += rb
    groups = {}
    for case, res in zip(cases, results):
        run.replayed += 1
        key = json.dumps([case["cfg"], case["i"]], sort_keys=True)
        label = "{} {}".format(case["cfg"], conv._short(case["i"]))
        for d in case["devs"]:
            run.trigger(d)
        v = res["verdict"]
        if v == "held":
            # OnePK on the real artefact
            n_pk = (res.get("art") or "").count("primary_key=True")
            if n_pk != 1:
                run.violation("{}: the emission has {} primary keys".format(label, n_pk), {"case": case, "runner": "format",
                                                                                       "artefact": res.get("art")}, key=key)
            else:
                run.held(key)
        elif v == "finding":
            for d in case["devs"]:
                run.finding(d, label, case={"case": case, "runner": "format"}, key=key)
        else:
            run.violation("{}: {}".format(label, "; ".join(w for _, w in res["diffs"][:3])),
                          {"case": case, "runner": "format", "real": res.get("real"), "artefact": res.get("art")}, key=key)
        if len(run.samples) < 3 and run.replayed % 257 == 1:
            run.sample({"cfg": case["cfg"], "i": case["i"], "artefact": (res.get("art") or "")[:400], "verdict": v})
    # the hybrid parser cannot read the hybrid emitter's output (a listed finding), so what the hybrid form EMITS is additionally
    # judged through the `__table__ = Table(...)` call it embeds, read by the Table parser
    _hybrid_embedded(run, cases)
    # Agree: re-run the variants of each interface and compare the real results with each other
    _agree(run, cases)


def _embedded_table(case, seed):
    """-> (source, plain IR) of the hybrid emission's embedded Table, read by the real Table parser"""
    import ast
    import copy

    import cdd.sqlalchemy.emit
    import cdd.sqlalchemy.parse
    from harness import real

    g = G.Gamma(seed)
    # the same concretisation as _reparse (the variants of one interface are compared with each other)
    salt = conv.salt_of({"cfg": {"style": case["cfg"]["style"], "force_pk": case["cfg"]["force_pk"]}, "i": case["i"]}, seed)
    ir = g.iface(case["i"], salt)
    name = ir.get("name") or "Config"
    node = cdd.sqlalchemy.emit.sqlalchemy_hybrid(copy.deepcopy(ir), class_name=name, table_name=name, force_pk_id=case["cfg"]["force_pk"],
                                                 docstring_format=case["cfg"]["style"], emit_default_doc=True)
    src, mod = real.render(node)
    cls = [n for n in mod.body if isinstance(n, ast.ClassDef)][0]
    tbl = [n for n in cls.body if isinstance(n, ast.Assign) and any(getattr(t, "id", None) == "__table__" for t in n.targets)]
    if len(tbl) != 1:
        raise AssertionError("the hybrid emission holds {} `__table__ = ...` assignments".format(len(tbl)))
    return src, real.plain(cdd.sqlalchemy.parse.sqlalchemy_table(tbl[0].value)), g, salt


def _hybrid_one(args):
    case, seed = args
    import contextlib
    import io
    try:
        with contextlib.redirect_stdout(io.StringIO()), contextlib.redirect_stderr(io.StringIO()):
            src, real_ir, g, salt = _embedded_table(case, seed)
    except Exception as e:  # noqa
        return {"fails": ["emitting the hybrid form / reading its embedded Table raises {}: {}".format(type(e).__name__, str(e)[:100])], "art": None}
    fails = [w for _, w in G.compare(real_ir, g.expected(case["exp"], case["i"], salt), True)]
    n_pk = src.count("primary_key=True")
    if n_pk != 1:
        fails.append("the emission has {} primary keys".format(n_pk))
    return {"fails": fails, "art": src, "params": json.dumps(real_ir["params"], sort_keys=True)}


def _hybrid_batch(items):
    G.NAME_COLS[0] = [0, 2, 3, 4]
    G.OPENERS[0] = G.SQL_OPENERS
    G.ALLOW_KEYS[0] = {"server_default"}
    G.OPENERS[0] = G.SQL_OPENERS
    return [_hybrid_one(a) for a in items]


def _hybrid_embedded(run, cases):
    hyb = [c for c in cases if c["cfg"]["fmt"] == "sqlalchemy_hybrid"]
    items = [(c, run.seed) for c in hyb]
    n = 0
    for rb in pmap(_hybrid_batch, [items[k:k + 64] for k in range(0, len(items), 64)], chunksize=1):
        for res in rb:
            case = hyb[n]
            n += 1
            key = json.dumps(["embedded", case["cfg"], case["i"]], sort_keys=True)
            if res["fails"]:
                run.violation("{} {} (embedded Table of the hybrid emission): {}".format(case["cfg"], conv._short(case["i"]), "; ".join(res["fails"][:3])),
                              {"case": case, "runner": "format", "artefact": res["art"]}, key=key)
            else:
                run.held(key)
            case["_embedded"] = res.get("params")
    run.extra["hybrid_emissions_read_through_embedded_table"] = n


def _reparse(args):
    case, seed = args
    import contextlib
    import io
    g = G.Gamma(seed)
    salt = conv.salt_of({"cfg": {"style": case["cfg"]["style"], "force_pk": case["cfg"]["force_pk"]}, "i": case["i"]}, seed)
    ir = g.iface(case["i"], salt)
    try:
        with contextlib.redirect_stdout(io.StringIO()), contextlib.redirect_stderr(io.StringIO()):
            _, real = conv.run_format(case["cfg"], ir)
        return json.dumps(real["params"], sort_keys=True)
    except Exception as e:  # noqa
        return "raises:" + type(e).__name__


def _agree_batch(items):
    return [_reparse(a) for a in items]


def _agree(run, cases):
    G.NAME_COLS[0] = [0, 2, 3, 4]
    G.OPENERS[0] = G.SQL_OPENERS
    items = [(c, run.seed) for c in cases]
    outs = []
    for rb in pmap(_agree_batch, [items[k:k + 64] for k in range(0, len(items), 64)], chunksize=1):
        outs += rb
    groups = {}
    for case, out in zip(cases, outs):
        k = json.dumps([case["cfg"]["style"], case["cfg"]["force_pk"], case["i"]], sort_keys=True)
        groups.setdefault(k, {})[case["cfg"]["fmt"]] = (out, case)
    n_groups = 0
    for k, g in groups.items():
        ok = {v: o for v, (o, c) in g.items() if not c["devs"]}      # variants not covered by a listed deviation
        for v, (o, c) in g.items():
            if c.get("_embedded"):
                ok[v + " (embedded Table)"] = c["_embedded"]
        if len(ok) >= 2:
            n_groups += 1
            if len(set(ok.values())) > 1:
                any_case = next(iter(g.values()))[1]
                run.violation("the variants {} of {} do not parse to the same columns".format(sorted(ok), conv._short(any_case["i"])),
                              {"case": any_case, "runner": "format", "results": ok}, key=("agree", k))
            else:
                run.held(("agree", k))
    run.extra["agree_groups_compared"] = n_groups
