"""C04 -- emitted code runs and exposes exactly the described interface.

TLC: Exec.tla -- Observe_f(Emit_f(i)) = Described_f(i) over the executable domain x 4 emitters x 3 styles.
R:   every dumped behaviour is concretised, emitted by the REAL emitter, rendered with to_code, compiled and executed
     in a scratch namespace (typing + argparse pre-imported); CPython is the oracle for the observation
     (class __annotations__ / attribute values, inspect.signature, ArgumentParser actions and parse_args); the
     observation must equal gamma(Described).  The unparse -> reparse clause (equal AST) is asserted for every emission.
"""

import argparse
import ast
import contextlib
import copy
import inspect
import io
import json
import random
import typing

from harness import conv
from harness import gamma as G
from harness.common import NCPU, MachineryError, pmap

CONV = {"int": "int", "float": "float", "str": "str", "bool": "bool", "none": None, "loads": "loads"}


def namespace():
    ns = {"__name__": "emitted"}
    ns.update({k: getattr(typing, k) for k in ("Optional", "List", "Union", "Literal", "Any", "Dict", "Tuple")})
    ns["argparse"] = argparse
    ns["ArgumentParser"] = argparse.ArgumentParser
    ns["BaseModel"] = object          # pydantic itself is not installed: a pydantic-shaped class is a plain class here
    ns["loads"] = json.loads
    return ns


def emit(cfg, ir):
    import cdd.argparse_function.emit
    import cdd.class_.emit
    import cdd.function.emit
    import cdd.pydantic.emit

    f = cfg["fmt"]
    edd = bool(cfg.get("edd"))
    if f == "class":
        return cdd.class_.emit.class_(copy.deepcopy(ir), class_name="Cfg", docstring_format=cfg["style"], emit_default_doc=edd)
    if f == "pydantic":
        return cdd.pydantic.emit.pydantic(copy.deepcopy(ir), class_name="Cfg", docstring_format=cfg["style"], emit_default_doc=edd)
    if f == "function":
        return cdd.function.emit.function(copy.deepcopy(ir), function_name="fn", function_type="static",
                                          docstring_format=cfg["style"], emit_as_kwonlyargs=cfg["kwonly"], emit_default_doc=edd)
    return cdd.argparse_function.emit.argparse_function(copy.deepcopy(ir), docstring_format=cfg["style"], emit_default_doc=edd)


class _FoldNeg(ast.NodeTransformer):
    """-3 is Constant(-3) when built by hand and UnaryOp(USub, Constant(3)) when parsed: the same literal"""

    def visit_UnaryOp(self, node):
        self.generic_visit(node)
        if isinstance(node.op, ast.USub) and isinstance(node.operand, ast.Constant) \
                and isinstance(node.operand.value, (int, float)) and not isinstance(node.operand.value, bool):
            return ast.copy_location(ast.Constant(value=-node.operand.value), node)
        return node


def ast_equal(a, b):
    a, b = _FoldNeg().visit(copy.deepcopy(a)), _FoldNeg().visit(copy.deepcopy(b))
    return ast.dump(a, include_attributes=False) == ast.dump(b, include_attributes=False)


def observe(cfg, src, names, supply):
    """execute the emitted source and observe the interface with CPython -> list of per-parameter observations"""
    ns = namespace()
    exec(compile(src, "<emitted>", "exec"), ns)
    f = cfg["fmt"]
    out = []
    if f in ("class", "pydantic"):
        cls = ns["Cfg"]
        ann = typing.get_type_hints(cls, globalns=ns) if hasattr(cls, "__annotations__") else {}
        for n in names:
            has = n in cls.__dict__
            out.append({"ann": repr(ann.get(n, "<none>")), "hasvalue": has,
                        "value": [type(cls.__dict__[n]).__name__, repr(cls.__dict__[n])] if has else None})
        extra = [k for k in cls.__dict__ if not k.startswith("__") and k not in names]
        return out, {"extra_attrs": extra}
    if f == "function":
        sig = inspect.signature(ns["fn"])
        hints = typing.get_type_hints(ns["fn"], globalns=ns)
        got = [p for p in sig.parameters.values()]
        for p in got:
            out.append({"name": p.name, "ann": repr(hints.get(p.name, "<none>")), "kind": p.kind.name,
                        "default": [type(p.default).__name__, repr(p.default)] if p.default is not inspect.Parameter.empty else None})
        return out, {"names": [p.name for p in got]}
    parser = argparse.ArgumentParser(prog="x")
    ns["set_cli_args"](parser)
    actions = [a for a in parser._actions if not isinstance(a, argparse._HelpAction)]
    for a in actions:
        out.append({"dest": a.dest, "options": a.option_strings, "conv": getattr(a.type, "__name__", None) if a.type else None,
                    "choices": list(a.choices) if a.choices is not None else None,
                    "append": isinstance(a, argparse._AppendAction),
                    "default": [type(a.default).__name__, repr(a.default)], "required": bool(a.required), "help": a.help})
    # parsing no optional arguments: required ones supplied, optional ones omitted
    argv = []
    for a in actions:
        if a.required:
            argv += [a.option_strings[0], supply.get(a.dest, "1")]
    with contextlib.redirect_stderr(io.StringIO()):
        try:
            nsp = vars(parser.parse_args(argv))
            parsed = {k: [type(v).__name__, repr(v)] for k, v in nsp.items()}
        except SystemExit:
            parsed = "error"
    return out, {"parsed": parsed, "dests": [a.dest for a in actions]}


def typ_repr(t):
    ns = namespace()
    return repr(eval(G.TYP[t], ns))


def judge(args):
    case, seed = args
    g = G.Gamma(seed)
    cfg = case["cfg"]
    i = {"doc": case.get("idoc", "one"), "params": case["ps"], "ret": {"typ": "none", "def": "absent", "doc": "absent"}}
    salt = conv.salt_of({"cfg": cfg, "i": i}, seed)
    ir = g.iface(i, salt)
    # the SPELLING of a type is not part of the interface: a third of the cases carry their string constants in double quotes
    # (`Literal["a", "b"]`, as hand-written or JSON-borne descriptions do); what the emitted code exposes must not depend on it
    if salt % 3 == 1:
        for entry in ir["params"].values():
            if isinstance(entry.get("typ"), str):
                entry["typ"] = entry["typ"].replace("'", '"')
    names = list(ir["params"].keys())
    res = {"diffs": [], "src": None}
    try:
        with contextlib.redirect_stdout(io.StringIO()), contextlib.redirect_stderr(io.StringIO()):
            node = emit(cfg, ir)
            from cdd.shared.source_transformer import to_code
            src = to_code(node)
    except Exception as e:  # noqa
        res["diffs"].append("emitter raises {}: {}".format(type(e).__name__, str(e)[:100]))
        return res
    res["src"] = src
    try:
        re_ast = ast.parse(src)
    except SyntaxError as e:
        res["diffs"].append("emitted source does not compile: {}".format(e))
        return res
    body = re_ast.body[0] if len(re_ast.body) == 1 else None
    if body is None or not ast_equal(ast.parse(to_code(body)), re_ast):
        res["diffs"].append("unparse -> reparse of the emitted AST is not stable")
    if not ast_equal(ast.fix_missing_locations(ast.Module(body=[node], type_ignores=[])), re_ast):
        res["diffs"].append("re-parsing the rendered text does not give back the emitted AST")
    supply = {}
    for n, p in zip(names, case["ps"]):
        b = p["typ"].replace("Opt_", "")
        supply[n] = {"int": "7", "float": "1.5", "bool": "1", "Lit": "a", "Union_int_str": "7", "dict": "{}"}.get(b, "zz")
    try:
        obs, extra = observe(cfg, src, names, supply)
    except BaseException as e:  # noqa
        res["diffs"].append("executing the emitted source fails: {}: {}".format(type(e).__name__, str(e)[:100]))
        return res
    desc = case["desc"]
    f = cfg["fmt"]
    if f == "function" and extra["names"] != names:
        res["diffs"].append("signature names {} != {}".format(extra["names"], names))
        return res
    if f == "argparse" and extra["dests"] != names:
        res["diffs"].append("argparse options {} != {}".format(extra["dests"], names))
        return res
    if f in ("class", "pydantic") and extra["extra_attrs"]:
        res["diffs"].append("unexpected class attributes {}".format(extra["extra_attrs"]))
    for k, (n, p, d, o) in enumerate(zip(names, case["ps"], desc, obs)):
        if case["wild"][k]:
            continue
        def val(x):
            has, v = g.default(x, p["typ"], salt + k)
            if x == "None":
                v = None
            return [type(v).__name__, repr(v)] if has else None
        if f in ("class", "pydantic"):
            if o["ann"] != typ_repr(d["ann"]):
                res["diffs"].append("{}: annotation {} != {}".format(n, o["ann"], typ_repr(d["ann"])))
            if o["hasvalue"] != d["hasvalue"]:
                res["diffs"].append("{}: class attribute {} but described {}".format(
                    n, o["value"] if o["hasvalue"] else "absent", "a default" if d["hasvalue"] else "no default"))
            elif d["hasvalue"] and o["value"] != val(d["value"]):
                res["diffs"].append("{}: class attribute {} != {}".format(n, o["value"], val(d["value"])))
        elif f == "function":
            if o["ann"] != typ_repr(d["ann"]):
                res["diffs"].append("{}: annotation {} != {}".format(n, o["ann"], typ_repr(d["ann"])))
            if o["kind"] != d["kind"]:
                res["diffs"].append("{}: kind {} != {}".format(n, o["kind"], d["kind"]))
            if o["default"] != val(d["default"]):
                res["diffs"].append("{}: signature default {} != {}".format(n, o["default"], val(d["default"])))
        else:
            if o["options"] != ["--" + n]:
                res["diffs"].append("{}: option strings {}".format(n, o["options"]))
            want_conv = CONV[d["conv"]]
            got_conv = o["conv"] if (o["conv"] is not None or o["choices"] is not None) else "str"   # argparse's default conversion is str
            if got_conv != want_conv:
                res["diffs"].append("{}: type conversion {} != {}".format(n, o["conv"], d["conv"]))
            if d["choices"] != (o["choices"] is not None) or (d["choices"] and sorted(o["choices"]) != ["a", "b"]):
                res["diffs"].append("{}: choices {}".format(n, o["choices"]))
            if o["append"] != d["append"]:
                res["diffs"].append("{}: append action {} != {}".format(n, o["append"], d["append"]))
            if o["default"] != val(d["default"]):
                res["diffs"].append("{}: argparse default {} != {}".format(n, o["default"], val(d["default"])))
            if o["required"] != d["required"]:
                res["diffs"].append("{}: required {} != {}".format(n, o["required"], d["required"]))
            has_doc, doc = g.doc(d["help"], n)
            if G.canon_doc(o["help"]) != G.canon_doc(doc if has_doc else ""):
                res["diffs"].append("{}: help {!r} != {!r}".format(n, o["help"], doc))
            if extra["parsed"] == "error":
                res["diffs"].append("parse_args with every required option supplied exits with an error")
            elif not d["required"] and extra["parsed"].get(n) != val(d["default"]):
                res["diffs"].append("{}: parse_args without it yields {} != described default {}".format(
                    n, extra["parsed"].get(n), val(d["default"])))
    return res


def _batch(items):
    return [judge(a) for a in items]


def check(run, replay=None):
    run.rule = ("case = (emitter in class/pydantic-shaped class/function/argparse, docstring style, kw-only) x interface of 1..2 "
                "parameters in the executable domain (13 type shapes resolvable from typing+builtins x literal defaults); every "
                "emission is compiled and executed; distinct = distinct (cfg, interface)")
    run.assumptions += ["CPython (compile/exec, inspect, typing.get_type_hints, argparse) is the oracle for the observation",
                        "argparse `required` follows the tool's convention: required <=> the type is not Optional",
                        "pydantic is not installed: BaseModel is bound to object when a pydantic-shaped class is executed"]
    if replay:
        with open(replay) as f:
            cases = [json.load(f)["case"]["case"]]
    else:
        quick = run.tier == "quick"
        run.tlc("Exec", "MC_Exec.cfg", constants={"MaxParams": 2}, workers=NCPU, timeout=3000)
        enabled = conv.enabled_constant(run)
        r = run.tlc("Exec", "MC_Exec_dump.cfg", shards=10, constants={"MaxParams": 2, "Enabled": enabled}, timeout=3000)
        cases = r.printed
        if not cases:
            raise MachineryError("Exec dump produced no behaviours")
        seen = {d for c in cases for d in c["devs"]}
        missing = sorted(set(run.known) - seen)
        if missing:
            raise MachineryError("listed C04 findings {} are unreachable in Exec.tla".format(missing))
        if quick:
            one = [c for c in cases if len(c["ps"]) == 1]
            two = [c for c in cases if len(c["ps"]) == 2]
            cases = one + random.Random(run.seed).sample(two, min(3000, len(two)))
        else:
            run.exhaustive = True
    items = [(c, run.seed) for c in cases]
    n = 0
    import collections
    tri = collections.Counter()
    for rb in pmap(_batch, [items[k:k + 64] for k in range(0, len(items), 64)], chunksize=1):
        for res in rb:
            case = cases[n]
            n += 1
            run.replayed += 1
            key = json.dumps([case["cfg"], case.get("idoc"), case["ps"]], sort_keys=True)
            for d in case["devs"]:
                run.trigger(d)
            label = "{} doc={} {}".format(case["cfg"], case.get("idoc"), ",".join("{}/{}/{}".format(p["typ"], p["def"], p["doc"]) for p in case["ps"]))
            if not res["diffs"]:
                run.held(key)
                if any(case["wild"]):
                    # the listed deviation was exercised on this case; whether it still shows is judged below
                    pass
            else:
                run.violation("{}: {}".format(label, "; ".join(res["diffs"][:3])),
                              {"case": case, "src": res["src"]}, key=key)
                tri[(case["cfg"]["fmt"], res["diffs"][0].split(":")[-1][:40] if False else
                     tuple(sorted({(p["typ"], p["def"]) for p in case["ps"][:1]})), res["diffs"][0][:60])] += 1
            if len(run.samples) < 3 and n % 211 == 1:
                run.sample({"cfg": case["cfg"], "ps": case["ps"], "described": case["desc"], "source": (res["src"] or "")[:300]})
    # entries marked wild by a listed deviation: confirm the deviation is still there (else STALE) by re-judging without the mask
    import os
    if os.environ.get("VERIF_TRIAGE"):
        for k, v in tri.most_common(60):
            print("TRIAGE", v, k)
    _wild_findings(run, cases)


def _wild_findings(run, cases):
    wild_cases = [c for c in cases if any(c["wild"])]
    if not wild_cases:
        return
    unmasked = []
    for c in wild_cases:
        c2 = dict(c)
        c2["wild"] = [False] * len(c["wild"])
        unmasked.append((c2, run.seed))
    n = 0
    for rb in pmap(_batch, [unmasked[k:k + 64] for k in range(0, len(unmasked), 64)], chunksize=1):
        for res in rb:
            case = wild_cases[n]
            n += 1
            if res["diffs"]:
                for d in case["devs"]:
                    run.finding(d, "{} {}: {}".format(case["cfg"], [(p["typ"], p["def"]) for p in case["ps"]], res["diffs"][0]),
                                case={"case": case}, key=None)
