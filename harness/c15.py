"""C15 -- docstring prose outside the parameter section is preserved.

TLC: DocSplit.tla -- SplitConcat, HeaderClean, HeaderWhole, HeaderKept over all (header shape incl. dashed sub-headings, section kind both/params/ret, footer
     shape, source style, target style, indentation 0..2, route: docstring parser+emitter with or without the original text / function parse+emit) = 19 440 behaviours.
R:   every behaviour is concretised (the section is produced by the REAL emitter in the source style, x 2 parameter sets);
     the real parse_docstring_into_header_args_footer splits it and the real restyle path (parse_docstring ->
     docstring.emit with _internal.original_doc_str) converts it; verdicts: the three parts concatenate to the original
     exactly, no section token line in header/footer, every header prose line occurs in order in the restyled text,
     and no prose line is absorbed into a parsed type or default.
"""

import contextlib
import copy
import io
import json
import os
import textwrap
from collections import OrderedDict

from harness.common import NCPU, MachineryError, pmap

TEXT = ["Compute the thing quickly", "A longer explanation of what happens here", "and how it ends", "More prose follows",
        "Final remark about usage"]
DOCTEST = [">>> compute(1)", "2", ">>> compute(2)"]
TOKENS = (":param", ":type", ":return", ":rtype", ":cvar", "Args:", "Returns:", "Parameters", "----------", "-------", "Raises:")


KEYWORD_PROSE = ["Raises the alarm as soon as a value is out of range", "Returns nothing useful when the input is empty",
                 "Args are forwarded verbatim to the backend", "Kwargs given here win over the configuration file",
                 "Parameters of the model are left untouched"]


def lines_of(shape, pool_offset, kw=0):
    out, t, d = [], 0, 0
    for k in shape:
        if k == "K":
            out.append(KEYWORD_PROSE[(kw + t + pool_offset) % len(KEYWORD_PROSE)])      # every keyword in every position: `kw` is swept
            t += 1
            continue
        if k == "T":
            out.append(TEXT[(t + pool_offset) % len(TEXT)])
            t += 1
        elif k == "I":
            out.append("    " + TEXT[(t + pool_offset) % len(TEXT)])
            t += 1
        elif k == "D":
            out.append(DOCTEST[d % len(DOCTEST)])
            d += 1
        elif k == "U":
            out.append("-" * len(out[-1].strip()))
        else:
            out.append("")
    return out


def build(case, variant):
    import cdd.docstring.emit

    kw, variant = variant, variant % 2
    params = OrderedDict((("alpha", {"typ": "int", "doc": "the alpha", "default": 5}),)) if variant == 0 else \
        OrderedDict((("dataset_name", {"typ": "str", "doc": "name of the dataset", "default": "mnist"}),
                     ("as_numpy", {"typ": "Optional[bool]", "doc": "convert to numpy"})))
    sect = case.get("sect", "both")
    ir = {"name": "f", "doc": "", "params": params if sect != "ret" else OrderedDict(),
          "returns": OrderedDict((("return_type", {"typ": "int", "doc": "the result"}),)) if sect != "params" else None}
    section = cdd.docstring.emit.docstring(copy.deepcopy(ir), docstring_format=case["from"], indent_level=0).strip("\n")
    header = lines_of(case["h"], 0, kw)
    footer = lines_of(case["f"], 3, kw)
    body = header + [""] + section.split("\n") + footer
    pad = "    " * (case["indent"] + (1 if case.get("route") == "function" else 0))
    text = "\n" + "\n".join((pad + ln) if ln.strip() else ln for ln in body) + "\n" + pad
    if case.get("first") == "quotes":
        # the summary stands right behind the opening quotes: that line has no indentation of its own
        text = text[1 + len(pad):]
    return text, header, footer, section


def function_parse(case, text, variant):
    """a function definition nested `indent` classes deep carries the docstring; the real function parser reads it"""
    import ast

    import cdd.function.parse

    sig = "" if case.get("sect") == "ret" else "alpha=5" if variant % 2 == 0 else 'dataset_name="mnist", as_numpy=None'
    depth = case["indent"]
    pad = "    " * depth
    src = "".join("{}class C{}(object):\n".format("    " * k, k) for k in range(depth))
    src += '{pad}def f({sig}):\n{pad}    """{text}"""\n{pad}    pass\n'.format(pad=pad, sig=sig, text=text)
    node = ast.parse(src).body[0]
    for _ in range(depth):
        node = node.body[0]
    return node, cdd.function.parse.function(node)


def function_emit(case, ir):
    """... and the real function emitter writes it back in the target style (the path `doctrans` takes)"""
    import ast

    import cdd.function.emit

    fn = cdd.function.emit.function(copy.deepcopy(ir), function_name="f", function_type="static", docstring_format=case["to"],
                                    indent_level=case["indent"])
    return ast.get_docstring(fn, clean=False) or ""


def run_case(args):
    case, variant = args
    import cdd.docstring.emit
    import cdd.shared.docstring_parsers as dp
    import cdd.shared.docstring_utils as du

    res = {"case": case, "variant": variant, "fails": []}
    try:
        with contextlib.redirect_stdout(io.StringIO()), contextlib.redirect_stderr(io.StringIO()):
            text, header, footer, section = build(case, variant)
    except Exception as e:  # noqa
        res["skip"] = "section cannot be emitted: {}".format(type(e).__name__)
        return res
    res["text"] = text
    prose_h = [ln.strip() for ln in header if ln.strip()]
    prose_f = [ln.strip() for ln in footer if ln.strip()]
    # ---- split ----
    try:
        with contextlib.redirect_stdout(io.StringIO()), contextlib.redirect_stderr(io.StringIO()):
            h, a, f = du.parse_docstring_into_header_args_footer(textwrap.dedent(text), text)
        parts = [h or "", a or "", f or ""]
        if "".join(parts) != text:
            res["fails"].append(("SplitConcat", "header + section + footer != original ({} vs {} characters; first difference at {})".format(
                len("".join(parts)), len(text), next((k for k, (x, y) in enumerate(zip("".join(parts), text)) if x != y), min(len(text), len("".join(parts)))))))
        for nm, part in (("header", parts[0]), ("footer", parts[2])):
            bad = [ln for ln in part.split("\n") if ln.strip().startswith(TOKENS) and ln.strip() not in prose_h + prose_f]
            if bad:
                res["fails"].append(("HeaderClean", "the {} contains section lines: {}".format(nm, bad[:2])))
        got = [ln.strip() for ln in parts[0].split("\n") if ln.strip()]
        if got != prose_h:
            res["fails"].append(("HeaderWhole", "the header part holds {} of the {} header prose lines (first odd one: {!r})".format(
                len([x for x in got if x in prose_h]), len(prose_h),
                next((x for x in got if x not in prose_h), None) or next((x for x in prose_h if x not in got), None))))
        # where the section ends and the footer begins is NOT judged: the statement fixes only the concatenation identity, and as
        # built the footer stays inside the section part (ReST, Google) or the cut falls inside the return entry (NumPy)
        res["footer_in_footer_part"] = [ln.strip() for ln in parts[2].split("\n") if ln.strip()] == prose_f
    except Exception as e:  # noqa
        res["fails"].append(("SplitConcat", "the split raises {}: {}".format(type(e).__name__, str(e)[:80])))
    # ---- restyle ----
    absorbed = []
    try:
        with contextlib.redirect_stdout(io.StringIO()), contextlib.redirect_stderr(io.StringIO()):
            if case.get("route") == "function":
                node, ir = function_parse(case, text, variant)
            else:
                ir = dp.parse_docstring(text)
        fields = []
        for n, e in ir["params"].items():
            fields += [str(e.get("typ", "")), str(e.get("default", ""))]
        for e in (ir.get("returns") or {}).values():
            fields += [str(e.get("typ", "")), str(e.get("default", ""))]
        absorbed = [ln for ln in prose_h + prose_f if any(ln in fld for fld in fields)]
        if absorbed:
            res["fails"].append(("NoProseInFields", "prose {} was absorbed into a type/default: {}".format(absorbed[:2], [x for x in fields if x][:4])))
        with contextlib.redirect_stdout(io.StringIO()), contextlib.redirect_stderr(io.StringIO()):
            if case.get("route") == "function":
                out = function_emit(case, ir)
            else:
                ir2 = copy.deepcopy(ir)
                if case.get("route") != "ir":
                    ir2["_internal"] = {"original_doc_str": text}
                out = cdd.docstring.emit.docstring(ir2, docstring_format=case["to"], indent_level=case["indent"])
        pos = 0
        out_lines = [ln.strip() for ln in out.split("\n")]
        for ln in prose_h:
            try:
                pos = out_lines.index(ln, pos) + 1
            except ValueError:
                res["fails"].append(("HeaderKept", "header line {!r} is missing (or out of order) after conversion {} -> {}".format(
                    ln, case["from"], case["to"])))
                break
        res["out"] = out
    except Exception as e:  # noqa
        if absorbed:
            # the emitter chokes on the type that swallowed the prose: the same failure, already recorded under NoProseInFields
            res["fails"][-1] = ("NoProseInFields", res["fails"][-1][1] + " (and the emitter then raises {})".format(type(e).__name__))
        elif isinstance(e, SyntaxError) and prose_f and any(ln.split()[0] in str(getattr(e, "text", "") or "") for ln in prose_f):
            # the PARSER chokes on it: the offending text quoted by the SyntaxError is the type glued to the footer prose
            res["fails"].append(("NoProseInFields", "footer prose was absorbed into a type, on which the parser then raises SyntaxError ({!r})".format(
                (e.text or "").strip()[:60])))
        else:
            res["fails"].append(("HeaderKept", "the restyle path raises {}: {}".format(type(e).__name__, str(e)[:80])))
    return res


def _batch(items):
    return [run_case(a) for a in items]


def check(run, replay=None):
    from harness import conv

    run.rule = ("case = (header shape: 11 multi-paragraph shapes with blank / indented / doctest / dashed-underline lines and prose lines that begin with a section keyword (each of 5 keywords in turn), footer shape: 6 incl. none, "
                "source style, target style, indentation 0..2, route: docstring parse+emit or function parse+emit) x 2 parameter sets; the section is produced by the real emitter; distinct = "
                "distinct (case, parameter set)")
    run.tlc("DocSplit", "MC_DocSplit.cfg", workers=4, timeout=600)
    r = run.tlc("DocSplit", "MC_DocSplit_dump.cfg", shards=3, constants={"Enabled": conv.enabled_constant(run)}, timeout=600)
    cases = r.printed
    missing = sorted(set(run.known) - {d for c in cases for d in c["devs"]})
    if missing:
        raise MachineryError("listed C15 findings {} are unreachable in DocSplit.tla".format(missing))
    if replay:
        with open(replay) as f:
            want = json.load(f)["case"]["case"]
        cases = [c for c in cases if all(c.get(k) == want.get(k, c.get(k)) for k in ("h", "f", "from", "to", "indent", "route", "sect", "first"))]
    run.exhaustive = True
    # (a shape with a keyword-prose line is run once per keyword: the variant number selects it)
    items = [(c, v) for c in cases for v in (range(len(KEYWORD_PROSE)) if "K" in c["h"] or "K" in c["f"] else (0, 1))]
    tri = {}
    for rb in pmap(_batch, [items[k:k + 32] for k in range(0, len(items), 32)], chunksize=1):
        for res in rb:
            if "skip" in res:
                continue
            case = res["case"]
            run.replayed += 1
            key = json.dumps([case["h"], case["f"], case["from"], case["to"], case["indent"], case.get("route"), case.get("sect"), case.get("first"), res["variant"]])
            for d in case["devs"]:
                run.trigger(d)
            label = "header={} footer={} section={} {}->{} indent={} route={} first-line={} params={}".format(
                "".join(case["h"]), "".join(case["f"]) or "-", case.get("sect"), case["from"], case["to"], case["indent"], case.get("route"), case.get("first"),
                res["variant"])
            if not res["fails"]:
                run.held(key)
            else:
                fmap = {"SplitConcat": "split_reindents_blank_lines", "NoProseInFields": "rest_footer_absorbed_into_rtype"}
                unexplained = [(c, m) for c, m in res["fails"] if fmap.get(c) not in case["devs"]]
                if unexplained:
                    run.violation("{}: {}".format(label, "; ".join(m for _, m in unexplained[:3])),
                                  {"case": case, "variant": res["variant"], "text": res.get("text"), "restyled": res.get("out")}, key=key)
                    k2 = (case["from"], case["to"] if not unexplained[0][0].startswith("Split") else "-", (case["indent"], case.get("route")), unexplained[0][0],
                          "".join(case["h"]), "".join(case["f"]))
                    tri[k2] = tri.get(k2, 0) + 1
                else:
                    for c, m in res["fails"]:
                        run.finding(fmap[c], "{}: {}".format(label, m), case={"case": case}, key=key)
            if len(run.samples) < 2 and res.get("out") and not res["fails"]:
                run.sample({"case": case, "original": res["text"][:400], "restyled": res["out"][:400]})
    if os.environ.get("VERIF_TRIAGE"):
        import collections
        agg = collections.Counter()
        for k, v in tri.items():
            agg[(k[0], k[1], k[2], k[3])] += v
        for k, v in agg.most_common(40):
            print("TRIAGE", v, k)
